"""C03 - every valid frame not preceded by a stray 0xD3 is recognised, once, in order."""
import framer_common


def run(ctx, replay):
    return framer_common.run_family(
        ctx, replay, key="c03", mode="c03", n_quick=8, n_thorough=11,
        rule="one case = one byte stream fed to the real HandleMessages (plus channel capacities); streams are sequences of valid frames "
             "(every payload length in thorough / boundary lengths + seeded sample in quick; every type class incl. the 14 MSM types and "
             "1005/1006 with short payloads), 0xD3-free junk (random, NMEA-like, UBX-like), payloads/CRCs containing 0xD3, back-to-back "
             "frames, truncation of the last frame at every byte; the spec decides well-structuredness; non-trivial = non-empty stream",
        assumptions=["well-structuredness and the expected segmentation are computed by FramerCore!Classify (declarative) with the real CRC-24Q in TLA+",
                     "the harness frame builder is a driver only"])
