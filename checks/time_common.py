"""Shared part of C06 / C17 (DESIGN.md section 6): TimeTrack model checking, TLC-generated histories, trace validation."""
import json
import re
import vlib


def sim_behaviours(ctx, cfg, num, depth):
    out = ctx.tlc_simulate("TimeTrack_Sim", cfg, num=num, depth=depth, timeout=300)
    res = []
    for m in re.finditer(r'<<"BEH", "(.*)">>', out):
        res.append(json.loads(m.group(1).encode().decode("unicode_escape")))
    return res


def counterexample_history(ctx, cfg):
    """Run an as-found configuration; the model must violate Correct; return the failing history."""
    r = ctx.tlc_mc("TimeTrack_Sim", cfg, workers=1, timeout=300, must_hold=False)
    if r["ok"]:
        raise vlib.Inconclusive("as-found switch configuration %s no longer violates the property in the model" % cfg)
    out = r["out"]
    hs = re.findall(r"/\\ hist = (<<.*>>)", out)
    ts = re.findall(r"/\\ T = (\d+)", out)
    if not hs or not ts:
        raise vlib.Inconclusive("cannot parse counterexample of %s" % cfg)
    pairs = re.findall(r"<<(\d+), (-?\d+)>>", hs[-1])
    return dict(T=int(ts[-1]), hist=[[int(a), int(b)] for a, b in pairs])


def split_cases(events):
    cases, cur = [], None
    for i, e in enumerate(events, 1):
        if e["ev"] == "new":
            if cur:
                cases.append(cur)
            cur = [i, i, e]
        elif cur:
            cur[1] = i
    if cur:
        cases.append(cur)
    return cases


def run_time(ctx, replay, key, mode, mc_quick, mc_thorough, rule, assumptions):
    drv = ctx.build_harness()
    crash = None
    trace = ctx.path(mode + ".ndjson")
    if replay:
        with open(replay) as f:
            vlib.write_ndjson(trace, json.load(f)["replay"]["events"])
    else:
        # 1. design level
        for cfg in (mc_thorough if ctx.thorough() else mc_quick):
            # the three-constellation configuration has ~2*10^8 transitions: no coverage instrumentation for it
            ctx.tlc_mc("TimeTrack_MC", cfg, timeout=1700, coverage=False if "ggg" in cfg else None)
        # 1b. no horizon: the per-constellation tracker keeps "state = function of the true time of the last
        #     observation, reported time = true time" for ever (Apalache, integer time, real constants), and the
        #     transcription it works on makes exactly the steps of the L1 model the traces are compared with (TLC)
        for cfg in ("TimeTrack_IndEq_glo.cfg", "TimeTrack_IndEq_gps.cfg", "TimeTrack_IndEq_bds.cfg"):
            ctx.tlc_mc("TimeTrack_IndEq", cfg, timeout=300)
        ctx.apalache_inductive("TimeTrack_Ind", "ConstInitReal", "IndInit", "IndInv")
        if ctx.thorough():
            ctx.apalache_inductive("TimeTrack_Ind", "ConstInit", "IndInit", "IndInv")
            ctx.apalache_inductive("TimeTrack_Ind", "ConstInitWeekGapOther", "IndInit", "IndInv")
            ctx.apalache_inductive("TimeTrack_Ind", "ConstInitWeekGapGlonass", "IndInit", "IndInv", must_hold=False)
            ctx.apalache_inductive("TimeTrack_Ind", "ConstInitNonStrict", "IndInit", "IndInv", must_hold=False)
        # 2. direction B: behaviours from the model (random + the counterexamples of the as-found deviations)
        beh = []
        for cfg in ("TimeTrack_Sim_found_lose.cfg", "TimeTrack_Sim_found_gal.cfg", "TimeTrack_Sim_found_init.cfg"):
            if mode == "c06" and "init" in cfg:
                continue
            b = counterexample_history(ctx, cfg)
            # extend each counterexample by a few ticks so the fall-back-a-week effect of lost updates shows too
            beh.append(b)
            beh.append(dict(T=b["T"], hist=b["hist"] + [[h[0], min(h[1] + 20, 96)] for h in b["hist"][-1:] if h[1] >= 0]))
        beh += sim_behaviours(ctx, "TimeTrack_Sim_%s.cfg" % mode, 400 if ctx.thorough() else 60, 16)
        bfile = ctx.path("behaviours.ndjson")
        vlib.write_ndjson(bfile, beh)
        ctx.extra["tlc_behaviours_replayed"] = len(beh)
        env = {}
        if mode == "c17":
            from c10 import build_binary
            env["VERIF_DISPLAY_BIN"] = build_binary(ctx, "displayrtcm3")
        r = ctx.drive(drv, ["time", mode, trace, bfile], env=env, ok_codes=(0, 1, 2))
        if r.returncode != 0:
            crash = ctx.library_panic(r)
            if not crash:
                raise vlib.Inconclusive("driver failed rc=%d:\n%s" % (r.returncode, r.stderr[-3000:]))
    events = []
    for line in open(trace):
        line = line.strip()
        if line.endswith("}"):
            try:
                events.append(json.loads(line))
            except ValueError:
                pass
    if not events and crash:
        # nothing of the trace reached the disk before the process died inside the library: the crash itself is the finding
        ctx.violation(dict(event="crash", kind="library-panic", what=crash["what"][:80]), dict(crash=crash))
        return ctx.finish(level="model_checking", rule=rule, assumptions=assumptions, exhaustive=False)
    if not events:
        raise vlib.Inconclusive("driver produced no events")
    res = ctx.tlc_trace("Time_Trace", "Time_Trace.cfg", trace, timeout=1200)
    if res["badk"].get("driver"):
        raise vlib.Inconclusive("driver encoding disagrees with TsOf at events %s" % res["badk"]["driver"][:5])
    cases = split_cases(events)
    ctx.traces += len(cases)
    for (a, b, e0) in cases:
        evs = events[a - 1:b]
        cons = sorted({e["c"] for e in evs[1:]})
        ctx.count_case((e0["T"], e0["path"], [(e["c"], e["ts"]) for e in evs[1:]]), nontrivial=len(evs) > 2)
    ctx.extra["observations"] = sum(1 for e in events if e["ev"] == "obs")
    ctx.extra["illegal_timestamps"] = sum(1 for e in events if e["ev"] == "bad")
    for c in cases[:1] + cases[-1:]:
        ctx.sample(events[c[0] - 1:min(c[1], c[0] + 5)])
    seen = set()
    for i in res["badk"].get(key, []):
        case = next((c for c in cases if c[0] <= i <= c[1]), None)
        if case is None or case[0] in seen:
            continue
        seen.add(case[0])
        e = events[i - 1]
        evs = events[case[0] - 1:case[1]]
        first = next((x for x in evs[1:] if x["ev"] == "obs" and x["c"] == e["c"]), None)
        T = case[2]["T"]
        rec = dict(event=e["ev"], constellation=e["c"], path=case[2]["path"])
        if e["ev"] == "obs":
            rec["kind"] = "no-time" if not e["sent"] else ("wrong-time" if e["sent"] != e["u"] else "wrong-start-of-week")
            rec["first_obs_before_start"] = bool(first and (first["u"][0], first["u"][1]) < (T[0], T[1]))
            rec["is_first_obs_of_constellation"] = first is e
        else:
            rec["kind"] = "illegal-timestamp-not-an-error"
        ctx.violation(rec, dict(events=evs, rejected_event_index=i - case[0] + 1))
    if crash:
        # the process died inside the library while a history was being played (a goroutine the library starts itself)
        ctx.violation(dict(event="crash", kind="library-panic", what=crash["what"][:80]), dict(crash=crash, last_events=events[-12:]))
    drift = res["badk"].get("drift", [])
    ctx.extra["model_drift"] = dict(events=len(drift), first=events[drift[0] - 1]) if drift else None
    if drift:
        vlib.log("NOTE model-drift %s: the code left the L1 TimeTrack model at %d events (not a verdict)" % (ctx.pid, len(drift)))
    return ctx.finish(level="model_checking", rule=rule, assumptions=assumptions, exhaustive=False)
