"""C13 - transient end-of-file or read timeouts on the input lose and duplicate nothing (DESIGN.md 6/C13)."""
import json
import re
import vlib


def run(ctx, replay):
    drv = ctx.build_harness()
    trace = ctx.path("c13.ndjson")
    if replay:
        with open(replay) as f:
            vlib.write_ndjson(trace, [json.load(f)["replay"]["event"]])
    else:
        sfx = "_8" if ctx.thorough() else ""
        for cfg in ("w10t30", "w0t30", "t0"):
            ctx.tlc_mc("FileReader_MC", "FileReader_MC_%s%s.cfg" % (cfg, sfx), timeout=900)
        ctx.tlc_mc("FileReader_MC", "FileReader_MC_w30t10.cfg", timeout=900)   # outside the defined regime: safety only
        out = ctx.tlc_simulate("FileReader_Sim", "FileReader_Sim.cfg", num=300 if ctx.thorough() else 60, depth=12)
        scripts = ctx.path("scripts.ndjson")
        n = 0
        with open(scripts, "w") as f:
            for m in re.finditer(r'<<"SCRIPT", "(.*)">>', out):
                f.write(m.group(1).encode().decode("unicode_escape") + "\n")
                n += 1
        ctx.extra["tlc_scripts_replayed"] = n
        ctx.drive(drv, ["c13", trace, scripts], timeout=1500)
    events = vlib.read_ndjson(trace)
    if not events:
        raise vlib.Inconclusive("driver produced no events")
    res = ctx.tlc_trace("C13_Trace", "C13_Trace.cfg", trace, timeout=1500)
    ctx.traces += len(events)
    cls = {}
    stalled = 0
    for e in events:
        kinds = "".join(x["k"] for x in e["script"])
        ctx.count_case((kinds, [x["b"] for x in e["script"] if x["k"] == "D"], e["tz"], e["wait_ms"], e["chunked"]), nontrivial=any(c in kinds for c in "ETX"))
        c = e["cls"].split("@")[0]
        cls[c] = cls.get(c, 0) + 1
        stalled += 1 if e["stalled"] else 0
    ctx.extra["cases_by_class"] = cls
    ctx.extra["stalled_runs_discarded"] = stalled
    # a stalled run is not judged (the specification skips it); the verdict of the others stands.  Only when hardly any run
    # could be judged is the whole check inconclusive
    if stalled > len(events) * 4 // 5:
        raise vlib.Inconclusive("the machine stalled in %d of %d runs" % (stalled, len(events)))
    if stalled:
        vlib.log("NOTE C13: %d of %d runs were not judged because the machine stalled during them" % (stalled, len(events)))
    for e in events[:1] + events[len(events) // 2:len(events) // 2 + 1]:
        s = dict(e)
        s["script"] = "".join(x["k"] for x in e["script"])
        ctx.sample(s)
    for i in res["bad"]:
        e = events[i - 1]
        kinds = "".join(x["k"] for x in e["script"])
        rec = dict(kind="no-return-or-close" if not (e["returned"] and e["closed"]) else "wrong-messages-or-error", tz=e["tz"], cls=e["cls"].split("@")[0],
                   runs=re.sub(r"D+", "D", kinds)[:30])
        ctx.violation(rec, dict(event=e))
    return ctx.finish(
        level="model_checking",
        rule="one case = (script of read results over data bytes / EOF / i-o timeout / other error, tolerance 60 ms or zero, wait 0 or 1 ms, byte-wise or chunked source): "
             "single, double and triple interruptions of every kind at (quick: a third of / thorough: all) byte offsets of multi-frame streams, two interruptions, "
             "zero tolerance, other errors, and scripts simulated by TLC from FileReader_MC; the real bufio.Reader and Handle run on top of the scripted source; "
             "TLC computes the stop point (ReaderFaults) and the expected messages (FramerCore, real CRC); non-trivial = at least one non-data result",
        assumptions=["runs of intermediate length with wait ~ tolerance are outside the property and not generated",
                     "stall guard: a run during which an independent 1 ms ticker was delayed by more than a third of the tolerance is not judged (never a violation); the check is inconclusive only if more than four fifths of the runs are lost that way",
                     "the bounded model uses an abstract clock in which a Read takes one tick and a sleep of d at least d"],
        exhaustive=False)
