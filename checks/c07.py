"""C07 - no input can crash or hang framing, decoding or display (DESIGN.md 6/C07)."""
import json
import re
import vlib


def run(ctx, replay):
    drv = ctx.build_harness()
    trace = ctx.path("c07.ndjson")
    cases = ctx.path("c07cases.ndjson")
    # 1. model: guard thresholds per mask shape + in-bounds invariant of the guards
    cfg = "C07_Cases_full.cfg" if ctx.thorough() else "C07_Cases.cfg"
    mc = ctx.tlc_mc("C07_Cases", cfg, workers="auto", timeout=900)
    n = 0
    with open(cases, "w") as f:
        for m in re.finditer(r'<<"CASE", "(.*)">>', mc["out"]):
            f.write(m.group(1).encode().decode("unicode_escape") + "\n")
            n += 1
    if n != mc["distinct"]:
        raise vlib.Inconclusive("case enumeration incomplete: %d lines for %d states" % (n, mc["distinct"]))
    ctx.extra["mask_shape_classes_from_model"] = n
    # 2. replay the case classes on the real code under runtime monitors
    ctx.drive(drv, ["c07", cases, trace], timeout=1500)
    events = vlib.read_ndjson(trace)
    if len(events) < 100:
        raise vlib.Inconclusive("driver produced too few events")
    res = ctx.tlc_trace("C07_Trace", "C07_Trace.cfg", trace, timeout=900)
    ctx.traces += 1
    fams = {}
    for e in events:
        ctx.count_case((e["fam"], e["type"], e["nsat"], e["nsig"], e["len"], e["fill"], e["flag"], e["ts"]), True)
        fams[e["fam"]] = fams.get(e["fam"], 0) + 1
    ctx.extra["cases_by_family"] = fams
    ctx.extra["decodes_accepted"] = sum(1 for e in events if e.get("acc4") or e.get("acc7"))
    drift = res["badk"].get("drift", [])
    ctx.extra["model_drift"] = dict(events=len(drift), first=events[drift[0] - 1]) if drift else None
    if drift:
        vlib.log("NOTE model-drift C07: decoder acceptance differs from the guard model MSMGuards at %d frames (not a verdict)" % len(drift))
    for e in events[:2] + events[len(events) // 2:len(events) // 2 + 2] + events[-1:]:
        ctx.sample(e)
    for i in res["bad"]:
        e = events[i - 1]
        rec = dict(kind="timeout" if e["timeout"] else "panic", fam=e["fam"], stage=e["stage"],
                   msm_type=e["type"] in (1074, 1077, 1084, 1087, 1094, 1097, 1104, 1107, 1114, 1117, 1124, 1127, 1134, 1137),
                   short=e["len"] < 7)
        ctx.violation(rec, dict(event=e))
    # the same cases in a 32-bit build (index and length arithmetic in int / uint is 32 bits wide there) and as a static
    # binary in an empty root directory with an empty environment
    variants = [] if replay else [("GOARCH=386", ctx.trace_32bit(["c07", cases], trace, timeout=1500)),
                                  ("static binary in an empty root directory", ctx.trace_bare(["c07", cases], trace, timeout=1500))]
    for build, tv in variants:
        if not tv:
            continue
        evv = vlib.read_ndjson(tv)
        resv = ctx.tlc_trace("C07_Trace", "C07_Trace.cfg", tv, timeout=900)
        ctx.traces += 1
        for i in resv["bad"]:
            e = evv[i - 1]
            ctx.violation(dict(kind="timeout" if e["timeout"] else "panic", fam=e["fam"], stage=e["stage"], build=build), dict(event=e, build=build))
    return ctx.finish(
        level="exploration",
        rule="case space enumerated by TLC from the guard model (C07_Cases.tla): for every mask shape (nSat, nSig) and family the payload "
             "lengths around every guard threshold (-4..+1 bytes) plus extremes; concretised with zeros/ones/random payload bits, cell-mask "
             "fills, flag, legal and illegal timestamps, all 14 MSM types; plus every decodable type x short payload lengths x fills, other/unknown "
             "types with random payloads, and all frames as one stream through HandleMessages with display; each frame goes through GetMessage, "
             "Analyse, String (both log levels, twice), Copy, and all four decoders directly; distinct = distinct (family,type,nSat,nSig,len,fill,flag,ts)",
        assumptions=["a panic is observed by recover(), a hang by a 10 s watchdog per frame (normal: microseconds)",
                     "TLA+ contributes the case space and the design-level in-bounds invariant of the guards; it proves nothing about Go memory safety"],
        exhaustive=False)
