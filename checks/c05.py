"""C05 - base-position messages 1005/1006 decode exactly and display to 0.1 mm."""
import json
import vlib


def run(ctx, replay):
    drv = ctx.build_harness()
    trace = ctx.path("c05.ndjson")
    if replay:
        with open(replay) as f:
            vlib.write_ndjson(trace, [json.load(f)["replay"]["event"]])
    else:
        ctx.drive(drv, ["c05", trace])
    events = vlib.read_ndjson(trace)
    res = ctx.tlc_trace("C05_Trace", "C05_Trace.cfg", trace, timeout=1200)
    ctx.traces += 1
    cls = {}
    for e in events:
        ctx.count_case((e["raw"], e["dec"], e["path"], e["level"]), True)
        cls[e["cls"]] = cls.get(e["cls"], 0) + 1
    ctx.extra["classes"] = cls
    ctx.extra["accepted_decodes"] = sum(1 for e in events if not e["err"])
    for e in [x for x in events if x.get("text")][:3] + events[-2:]:
        ctx.sample(e)
    for i in res["bad"]:
        e = events[i - 1]
        rec = dict(kind="panic" if e["panic"] else ("rejected-or-accepted-wrongly" if (e["err"] != "") != (e["cls"] in ("truncation", "wrongtype")) else "wrong-fields-or-display"),
                   dec=e["dec"], path=e["path"], cls=e["cls"])
        ctx.violation(rec, dict(event=e))
    # the same cases in a 32-bit build of the library (int and uint are 32 bits wide there)
    # and as a static binary in an empty root directory (no time zone database, no environment)
    variants = [] if replay else [("GOARCH=386", ctx.trace_32bit(["c05"], trace)), ("static binary in an empty root directory", ctx.trace_bare(["c05"], trace))]
    for build, tv in variants:
        if not tv:
            continue
        evv = vlib.read_ndjson(tv)
        resv = ctx.tlc_trace("C05_Trace", "C05_Trace.cfg", tv, timeout=1200)
        ctx.traces += 1
        for i in resv["bad"]:
            e = evv[i - 1]
            ctx.violation(dict(kind="other-build-or-environment", dec=e["dec"], path=e["path"], cls=e["cls"]), dict(event=e, build=build))
    return ctx.finish(
        level="model_checking",
        rule="one case = (frame, decoder 1005/1006, path decoder|handler, log level); frames built from all extreme values (-2^37, -2^37+1, -1, 0, 1, "
             "2^37-1, alternating bits, multiples and neighbours of 10000 and of 2^37 mod 10000) in every coordinate, random fields and reserved bits, "
             "0..11 trailing bytes, every truncation length, wrong message types; distinct = distinct (frame, decoder, path, level)",
        assumptions=["fields are compared as 64-bit sign-extended limbs, display tokens as (sign, integer part, 4-digit fraction) parsed from every decimal number in String()",
                     "Base1005.tla is an executable format definition; TLC is its evaluator"],
        exhaustive=False)
