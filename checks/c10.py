"""C10 - rtcmfilter emits exactly the valid RTCM frames of its input, in order (DESIGN.md 6/C10)."""
import datetime
import json
import os
import random
import re
import subprocess
import time
import vlib


def build_binary(ctx, app):
    out = ctx.path(app + ".bin")
    e = dict(os.environ)
    e.update(GOPROXY="off", GOSUMDB="off", GOTOOLCHAIN="local")
    e.pop("GOFLAGS", None)
    r = subprocess.run(["go", "build", "-tags", "verif", "-o", out, "./apps/" + app], cwd=vlib.REPO, env=e, capture_output=True, text=True)
    if r.returncode != 0:
        raise vlib.Inconclusive("cannot build %s:\n%s" % (app, r.stderr[-2000:]))
    return out


HANGS = [0]


NODIR = [0]


def run_filter_binary(ctx, binary, case, n):
    """One run of the built rtcmfilter over OS pipes; returns an event like the overlay test's."""
    d = ctx.path("bin%d" % n)
    os.makedirs(d)
    logdir = os.path.join(d, "msglog")
    os.makedirs(logdir)
    cfg = os.path.join(d, "cfg.json")
    conf = {"display_messages": case["display"], "record_messages": case["record"], "log_directory": logdir}
    if case["display"] or case["record"]:
        NODIR[0] += 1
        if NODIR[0] % 2 == 0:
            # configuration corner: no log directory is configured - the files belong in the working directory
            del conf["log_directory"]
            logdir = d
    with open(cfg, "w") as f:
        json.dump(conf, f)
    data = bytes(case["in"])
    rng = random.Random(case["seed"])
    day1 = datetime.date.today().isoformat()
    p = subprocess.Popen([binary, "-c", cfg], cwd=d, stdin=subprocess.PIPE, stdout=subprocess.PIPE, stderr=subprocess.PIPE)
    import threading
    outbuf, errbuf = [], []
    t = threading.Thread(target=lambda: outbuf.append(p.stdout.read()))
    t.start()
    t2 = threading.Thread(target=lambda: errbuf.append(p.stderr.read()))    # (a full stderr pipe must not block the program)
    t2.start()
    i = 0
    chunk = case["chunk"] or 4096
    try:
        while i < len(data):
            k = rng.randint(1, chunk)
            p.stdin.write(data[i:i + k])
            p.stdin.flush()
            i += k
            if rng.random() < 0.1:
                time.sleep(0.002)
        p.stdin.close()
    except BrokenPipeError:
        pass
    try:
        rc = p.wait(timeout=60)
        ret = "" if rc == 0 else "exit %d" % rc
    except subprocess.TimeoutExpired:
        p.kill()
        ret = "timeout"
    t.join(10)
    t2.join(10)
    err = (errbuf[0] if errbuf else b"").decode(errors="replace")
    if ret == "timeout":
        HANGS[0] += 1
    if "panic" in err or "goroutine " in err:
        ret = "crash: " + err[:300]
    day2 = datetime.date.today().isoformat()
    ev = dict(ev="c10", id=case["id"], out=list(outbuf[0] if outbuf else b""), ret=ret, display=case["display"], record=case["record"],
              midnight=day1 != day2, rec=[], has_rec=False, entries=[], has_disp=False, path="binary")
    ev["in"] = case["in"]
    for day in (day1, day2):
        fn = os.path.join(logdir, "rtcmfilter.%s.rtcm" % day)
        if case["record"] and os.path.exists(fn):
            ev["rec"], ev["has_rec"] = list(open(fn, "rb").read()), True
            break
    for day in (day1, day2):
        fn = os.path.join(logdir, "rtcm.%s.txt" % day)
        if case["display"] and os.path.exists(fn):
            txt = open(fn, "rb").read().decode(errors="replace")
            ev["entries"], ev["has_disp"] = [int(x) for x in re.findall(r"Frame length (\d+) bytes:", txt)], True
            break
    return ev


def run(ctx, replay):
    drv = ctx.build_harness()
    cases = ctx.path("c10cases.ndjson")
    if replay:
        with open(replay) as f:
            vlib.write_ndjson(cases, [json.load(f)["replay"]["case"]])
    else:
        ctx.drive(drv, ["appcases", "c10", cases])
    caselist = vlib.read_ndjson(cases)
    byid = {c["id"]: c for c in caselist}
    out = ctx.path("c10_inproc.ndjson")
    ctx.overlay_test("rtcmfilter", cases, out, timeout=1500)
    crash = ctx.overlay_crash
    events = vlib.read_ndjson(out)
    for e in events:
        e["path"] = "in-process"
    # the built binary over pipes (process exit awaited, files read after exit)
    binary = build_binary(ctx, "rtcmfilter")
    nbin = 60 if ctx.thorough() else 10
    for n, c in enumerate(caselist[:nbin]):
        if HANGS[0] >= 3:
            break           # three runs that did not end are enough: the others would each wait a minute to say the same
        events.append(run_filter_binary(ctx, binary, c, n))
    events = [e for e in events if not e["midnight"]]
    if not events:
        raise vlib.Inconclusive("no usable run (date changed during every run?)")
    trace = ctx.path("c10.ndjson")
    vlib.write_ndjson(trace, events)
    res = ctx.tlc_trace("C10_Trace", "C10_Trace.cfg", trace, timeout=1700)
    ctx.traces += len(events)
    cls = {}
    for e in events:
        c = byid.get(e["id"], {})
        ctx.count_case((e["path"], e["id"], e["display"], e["record"]), nontrivial=len(e["in"]) > 0)
        k = "%s/%s" % (e["path"], c.get("cls", "?"))
        cls[k] = cls.get(k, 0) + 1
    ctx.extra["runs_by_path_and_class"] = cls
    ctx.extra["bytes_in"] = sum(len(e["in"]) for e in events)
    ctx.extra["bytes_out"] = sum(len(e["out"]) for e in events)
    s = dict(events[0])
    for k in ("in", "out", "rec"):
        s[k] = s[k][:40] + ["...(%d)" % len(events[0][k])]
    ctx.sample(s)
    for i in res["bad"]:
        e = events[i - 1]
        rec = dict(path=e["path"], ret=e["ret"][:30], display=e["display"], record=e["record"])
        ctx.violation(rec, dict(event={k: v for k, v in e.items() if k not in ("in",)}, case=byid.get(e["id"])))
    if crash:
        ctx.violation(dict(kind="filter-dies", what=crash["what"][:80]), dict(crash=crash))
    return ctx.finish(
        level="model_checking",
        rule="one case = (input stream, display on/off, record on/off, chunking of the input) through rtcmfilter's entry point in-process and through the built binary "
             "over OS pipes; streams: well-structured, arbitrary garbage with 0xD3, corrupted frames between valid ones, long frames with truncated tail, empty, junk only, "
             "mixtures; the expected output is computed by FramerCore with the real CRC-24Q in TLA+; non-trivial = non-empty input",
        assumptions=["readable-log entries are counted by the 'Frame length N bytes:' line that String() prints once per message, N checked against each message",
                     "log files are looked up under both adjacent dates; runs during which the date changed are dropped",
                     "in-process runs wait until the output is quiet before comparing, so that C10 is not conflated with C11"],
        exhaustive=False)
