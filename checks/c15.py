"""C15 - decoding and display are deterministic and free of hidden state."""
import json
import os
import re
import vlib


def run(ctx, replay):
    drv = ctx.build_harness(race=True)
    trace = ctx.path("c15.ndjson")
    racelog = ctx.path("race")
    r = ctx.drive(drv, ["c15", trace], timeout=1500, env={"GORACE": "halt_on_error=0 exitcode=0 log_path=" + racelog})
    # the same pool once more in a fresh process, in the opposite order
    trace2 = ctx.path("c15_rev.ndjson")
    ctx.drive(drv, ["c15", trace2, "reverse"], timeout=900, env={"GORACE": "halt_on_error=0 exitcode=0 log_path=" + racelog})
    with open(trace, "a") as f:
        f.write(open(trace2).read())
    # seven more fresh processes, each starting with the MSM frames of one constellation (what the library sets up on first
    # use is then set up by GPS, GLONASS, Galileo, SBAS, QZSS, BeiDou or NavIC frames)
    plain = ctx.build_harness()
    for t4 in (1074, 1084, 1094, 1104, 1114, 1124, 1134):
        tf = ctx.path("c15_first_%d.ndjson" % t4)
        ctx.drive(plain, ["c15", tf, "first", str(t4)], timeout=600)
        with open(trace, "a") as f:
            f.write(open(tf).read())
    # and once more in a fresh process whose first use of the library is concurrent
    trace3 = ctx.path("c15_conc.ndjson")
    r3 = ctx.drive(drv, ["c15", trace3, "concurrent"], timeout=900, env={"GORACE": "halt_on_error=0 exitcode=0 log_path=" + racelog}, ok_codes=(0, 1, 2))
    fatal = None
    if r3.returncode != 0:
        m = re.search(r"fatal error: [^\n]*", r3.stderr)
        if not m:
            raise vlib.Inconclusive("concurrent-first-use driver failed rc=%d:\n%s" % (r3.returncode, r3.stderr[-2000:]))
        fatal = m.group(0)
    if os.path.exists(trace3):
        with open(trace, "a") as f:
            f.write("".join(l for l in open(trace3) if l.strip().endswith("}")))
    events = vlib.read_ndjson(trace)
    if len(events) < 100:
        raise vlib.Inconclusive("driver produced too few events")
    res = ctx.tlc_trace("C15_Trace", "C15_Trace.cfg", trace, timeout=1500)
    ctx.traces += 1
    scen = {}
    for e in events:
        ctx.count_case((e["key"], e["scenario"], e["text"]), True)
        scen[e["scenario"]] = scen.get(e["scenario"], 0) + 1
    m = re.search(r'"KEYS",\s*(\d+)', res["out"])
    ctx.extra["distinct_frame_level_keys"] = int(m.group(1)) if m else 0
    ctx.extra["events_by_scenario"] = scen
    for e in [x for x in events if x.get("sample")][:3]:
        ctx.sample(e)
    for i in res["bad"]:
        e = events[i - 1]
        rec = dict(kind="panic" if e["panic"] else ("raw-bytes-modified-or-unstable-text" if not e["raw_same"] else "depends-on-context"), scenario=e["scenario"])
        ctx.violation(rec, dict(event=e, first_seen=next(x for x in events if x["key"] == e["key"])))
    if fatal:
        ctx.violation(dict(kind="fatal-runtime-error-under-concurrent-use", what=fatal[:60]), dict(stderr=r3.stderr[-4000:]))
    races = []
    d = os.path.dirname(racelog)
    for f in os.listdir(d):
        if f.startswith("race."):
            races.append(open(os.path.join(d, f)).read())
    ctx.extra["race_reports"] = len(races)
    for rep in races[:3]:
        where = re.findall(r"\n\s+(\S+go-ntrip\S+)\n", rep)[:2]
        ctx.violation(dict(kind="data-race", where=where[0] if where else "?"), dict(report=rep[:6000]))
    return ctx.finish(
        level="model_checking",
        rule="one case = (frame of the pool, log level, context): fresh handler, a second fresh process meeting the frames in the opposite order, seven fresh processes that each start with the MSM frames of one constellation, another fresh process whose first use of the library is concurrent (incl. 18 message types unknown to every table), after every other frame in seeded random orders on one handler, immediate repetition, "
             "8 handlers in parallel goroutines each displaying two by-value copies of every message concurrently (race detector on), and the real appcore fan-out where "
             "consumer 1 displays and overwrites every field of its own copy before consumer 2 looks; pool = 1005/1006, MSM4/MSM7 of all constellations and mask shapes incl. near-twin frames (same cell-mask bits with transposed shape, same masks with other data, same payload under another constellation), "
             "1230/other/unknown types, junk, malformed CRC-valid MSM, CRC failures; distinct = distinct (key, scenario, text digest)",
        assumptions=["text is compared after removing the two MSM time lines ('Time ...', 'Start of ...')",
                     "decoded fields are compared as a digest of the JSON encoding of the exported fields of Message.Readable",
                     "data races are observed by the Go race detector (not by TLA+); 'shared message values' are values shared by copying, as the fan-out delivers them"],
        exhaustive=False)
