"""C17 - any start time within the week of the first observation gives correct times."""
import time_common


def run(ctx, replay):
    return time_common.run_time(
        ctx, replay, key="c17", mode="c17",
        mc_quick=["TimeTrack_MC_c17_gg_q.cfg", "TimeTrack_MC_c17_bg_q.cfg"],
        mc_thorough=["TimeTrack_MC_c17_gg.cfg", "TimeTrack_MC_c17_bg.cfg"],
        rule="as C06 but the first observation of each constellation lies anywhere in the constellation week of the start time T "
             "(before, equal to or after T, incl. +-2.5 s around T and the last ms of the week); histories from the seeded generator and from TLC "
             "simulation of TimeTrack_MC with FirstNotBeforeT = FALSE; non-trivial = at least two observations",
        assumptions=["reported times are read back from Message.SentAt / StartOfWeek with the library's own DateLayout",
                     "TLC integers are 32-bit: instants are ms since a base Sunday, sessions stay below 3.5 weeks"])
