"""C06 - MSM timestamps are converted to the true UTC time across week rollovers."""
import time_common


def run(ctx, replay):
    return time_common.run_time(
        ctx, replay, key="c06", mode="c06",
        mc_quick=["TimeTrack_MC_c17_gg_q.cfg", "TimeTrack_MC_c17_bg_q.cfg"],
        mc_thorough=["TimeTrack_MC_c17_gg.cfg", "TimeTrack_MC_c17_bg.cfg", "TimeTrack_MC_c06_ggg.cfg"],
        rule="one case = (start time T in any zone, history of MSM observations of 1-4 constellations with known true UTC instants, illegal "
             "timestamps and unrelated frames inserted), run once through GetMessage and once through HandleMessages; histories come from a "
             "seeded generator concentrating T and observations within +-30 s / +-1 ms of each constellation's rollover and gaps up to just "
             "under six days over up to 3 weeks, and from TLC (random simulations of TimeTrack_MC and the counterexamples of the as-found "
             "deviations); the spec decides the preconditions; non-trivial = at least two observations",
        assumptions=["reported times are read back from Message.SentAt / StartOfWeek with the library's own DateLayout",
                     "TLC integers are 32-bit: instants are ms since a base Sunday, sessions stay below 3.5 weeks",
                     "the MC result holds for the toy calendar (4 ticks a day, week starts 1/2/3 ticks before Sunday) within the horizon"])
