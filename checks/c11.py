"""C11 - when an application's message handling returns, all output has been written (DESIGN.md 6/C11)."""
import json
import os
import re
import vlib

APPS = ("displayrtcm3", "rtcmfilter")


def run(ctx, replay):
    drv = ctx.build_harness()
    # 1. design level: the repaired design holds for all interleavings and writer latencies; the as-found
    #    design (return right after close) must show the counterexample that the replay forces on the code
    for cfg in ("Apps_TRUE_0.cfg", "Apps_TRUE_2.cfg"):
        ctx.tlc_mc("Apps", cfg, workers=1, timeout=300)
    outstanding = 0
    # a hazard of the design as it stands (recorded, outside the listed properties): a writer that gives up at a write
    # error stops receiving and the entry point never returns
    r = ctx.tlc_mc("Apps", "Apps_fail.cfg", workers=1, timeout=300, must_hold=False)
    if r["ok"]:
        raise vlib.Inconclusive("Apps.tla with a failing write should violate Returns")
    for cfg in ("Apps_FALSE_0.cfg", "Apps_FALSE_2.cfg"):
        r = ctx.tlc_mc("Apps", cfg, workers=1, timeout=300, must_hold=False)
        if r["ok"]:
            raise vlib.Inconclusive("Apps.tla with WaitForWriters = FALSE no longer violates C11")
        w = re.findall(r"/\\ written = <<(.*?)>>", r["out"])
        n = len([x for x in w[-1].split(",") if x.strip()]) if w else 0
        outstanding = max(outstanding, 4 - n)
    ctx.extra["model_counterexample_outstanding_writes_at_return"] = outstanding
    cases = ctx.path("c11cases.ndjson")
    if replay:
        with open(replay) as f:
            rp = json.load(f)["replay"]
        vlib.write_ndjson(cases, [rp["case"]])
        apps = [rp["app"]]
    else:
        ctx.drive(drv, ["appcases", "c11", cases])
        apps = APPS
    caselist = {c["id"]: c for c in vlib.read_ndjson(cases)}
    events = []
    crashes = []
    for app in apps:
        out = ctx.path("c11_%s.ndjson" % app)
        ctx.overlay_test(app, cases, out, timeout=1500)
        if ctx.overlay_crash:
            crashes.append((app, ctx.overlay_crash))
        for e in vlib.read_ndjson(out):
            e["app"] = app
            events.append(e)
    # the built programs: everything is on standard output by the time the process has exited
    if not replay:
        from c10 import build_binary
        import hashlib
        import subprocess
        for app in apps:
            binary = build_binary(ctx, app)
            for e in [x for x in events if x.get("ev") == "c11x" and x["app"] == app]:
                c = caselist[e["id"]]
                d = ctx.path("bin_%s_%d" % (app, e["id"]))
                os.makedirs(d)
                fn = os.path.join(d, "in.rtcm")
                with open(fn, "wb") as f:
                    f.write(bytes(c["in"]))
                try:
                    if app == "displayrtcm3":
                        r = subprocess.run([binary, fn, "2023-05-10"], cwd=d, capture_output=True, timeout=60)
                    else:
                        cfgf = os.path.join(d, "cfg.json")
                        with open(cfgf, "w") as f:
                            json.dump({"display_messages": False, "record_messages": False, "log_directory": d}, f)
                        r = subprocess.run([binary, "-c", cfgf], cwd=d, stdin=open(fn, "rb"), capture_output=True, timeout=60)
                    out, ret = r.stdout, r.returncode == 0
                except subprocess.TimeoutExpired:
                    out, ret = b"", False
                same = len(out) == e["want_len"] and hashlib.sha1(out).hexdigest() == e["want_sha"]
                e.update(dict(ev="c11", hold=0, ref_writes=1, binary=True, nin=len(c["in"]), returned_while_write_blocked=False, returned=ret,
                              complete_at_return=same, final_equal_ref=True, ref_matches_expected=same, bytes_at_return=len(out)))
    events = [e for e in events if e.get("ev") != "c11x"]
    used = [e for e in events if not e.get("skipped")]
    if not used:
        raise vlib.Inconclusive("no C11 case could be exercised")
    trace = ctx.path("c11.ndjson")
    vlib.write_ndjson(trace, used)
    res = ctx.tlc_trace("C11_Trace", "C11_Trace.cfg", trace)
    ctx.traces += len(used)
    for e in used:
        ctx.count_case((e["app"], e["id"], e["hold"]), nontrivial=e["ref_writes"] > 0)
    ctx.extra["skipped_cases"] = len(events) - len(used)
    ctx.extra["cases_per_app"] = {a: sum(1 for e in used if e["app"] == a) for a in apps}
    for e in used[:2] + used[-2:]:
        ctx.sample(e)
    for i in res["bad"]:
        e = used[i - 1]
        rec = dict(app=e["app"], kind="returned-while-write-in-progress" if e["returned_while_write_blocked"] else
                   ("did-not-return" if not e["returned"] else
                    ("output-never-written" if not e["ref_matches_expected"] and e["complete_at_return"] else "output-incomplete-at-return")))
        ctx.violation(rec, dict(event=e, app=e["app"], case=caselist.get(e["id"])))
    for app, crash in crashes:
        ctx.violation(dict(app=app, kind="application-dies", what=crash["what"][:80]), dict(crash=crash))
    return ctx.finish(
        level="model_checking",
        rule="one case = (application, input with at least one message, which Write call of the output writer is blocked: last, last-1, .., first, second ..); "
             "the blocked writer forces the schedule of the Apps.tla counterexample (close channel and return while a write is in progress); a reference run "
             "without blocking gives the output to compare with, which itself must equal the expected output computed from the real stream handler run sequentially; non-trivial = the reference run performs at least one Write",
        assumptions=["'returned early' is judged while a Write call is provably still blocked (no timing assumption); 'does not return early' is judged after 300 ms of a blocked write",
                     "the applications' entry points are exercised in-process through `go test -overlay` (package main), the repository is not modified"],
        exhaustive=False)
