"""C18 - the recent-message queue always holds the last N messages in arrival order (DESIGN.md 6/C18)."""
import json
import os
import re
import vlib


def run(ctx, replay):
    drv = ctx.build_harness(race=True)
    trace = ctx.path("c18.ndjson")
    cfgs = ["n1", "n2", "n3"] if not ctx.thorough() else ["n1", "n2_t", "n3_t"]
    for c in cfgs:
        ctx.tlc_mc("CircularQueue", "CircularQueue_MC_%s.cfg" % c, timeout=1500)
    r = ctx.tlc_mc("CircularQueue", "CircularQueue_MC_nolock.cfg", timeout=300, must_hold=False)
    if r["ok"]:
        raise vlib.Inconclusive("vacuity guard: the model without the lock should violate the property")
    # any capacity, any number of operations: CircularQueue_Ind's invariant is inductive (Apalache, integers unbounded), holds
    # initially, implies the C18 statements, is NOT inductive for an off-by-one eviction (control); TLC binds the abstraction
    # to CircularQueue step by step on the bounded model
    ctx.apalache_inductive("CircularQueue_Ind", "ConstInit", "IndInit", "IndInv")
    ctx.apalache_inductive("CircularQueue_Ind", "ConstInit", "Init", "IndInv")
    ctx.apalache_inductive("CircularQueue_Ind", "ConstInit", "IndInit", "Implied")
    ctx.apalache_inductive("CircularQueue_Ind", "ConstInitLate", "IndInit", "IndInv", must_hold=False)
    ctx.tlc_mc("CircularQueue_IndEq", "CircularQueue_IndEq_%s.cfg" % ("n3" if ctx.thorough() else "n2"), timeout=900)
    racelog = ctx.path("race")
    fatal = []

    def drive_queue(binary, args, env=None, timeout=1500):
        # the Go runtime ends the process when it sees unsynchronised map access ("fatal error: concurrent map ..."): that is
        # the queue's doing, not the driver's - recorded as a violation, with whatever trace was written before
        r = ctx.drive(binary, args, timeout=timeout, env=env, ok_codes=(0, 1, 2))
        if r.returncode != 0:
            m = re.search(r"fatal error: [^\n]*", r.stderr)
            if not m:
                raise vlib.Inconclusive("driver failed rc=%d: %s\n%s" % (r.returncode, " ".join(args), r.stderr[-3000:]))
            fatal.append((m.group(0), r.stderr[-4000:]))
    drive_queue(drv, ["c18", trace], env={"GORACE": "halt_on_error=0 exitcode=0 log_path=" + racelog})
    # the concurrent histories once more in a build without the race detector (its instrumentation changes who runs when)
    trace2 = ctx.path("c18_plain.ndjson")
    drive_queue(ctx.build_harness(), ["c18", trace2, "conc"], timeout=900)
    with open(trace, "a") as f:
        f.write("\n")
        if os.path.exists(trace2):
            f.write("".join(l for l in open(trace2) if l.strip().endswith("}")))
    events = []
    for line in open(trace):
        line = line.strip()
        if line.endswith("}"):
            try:
                events.append(json.loads(line))
            except ValueError:
                pass
    if fatal:
        # the trace may end in the middle of a line / a case: keep complete lines only
        with open(trace, "w") as f:
            for e in events:
                f.write(json.dumps(e) + "\n")
    res = ctx.tlc_trace("C18_Trace", "C18_Trace.cfg", trace, timeout=1700)
    cases, cur = [], None
    for i, e in enumerate(events, 1):
        if e["ev"] in ("new", "cnew"):
            cur = [i, i, e]
            cases.append(cur)
        elif cur:
            cur[1] = i
    ctx.traces += len(cases)
    kinds = {"sequential": 0, "concurrent": 0}
    for c in cases:
        evs = events[c[0] - 1:c[1]]
        kind = "concurrent" if c[2]["ev"] == "cnew" else "sequential"
        kinds[kind] += 1
        sig = (c[2]["n"], kind, "".join(e["ev"][0] for e in evs[1:60]), len(evs)) if kind == "sequential" else (c[0],)
        ctx.count_case(sig, nontrivial=len(evs) > 2)
    ctx.extra["cases"] = kinds
    ctx.extra["events"] = len(events)
    if len(cases) > 5:
        ctx.sample(events[cases[5][0] - 1:cases[5][1]])
    cc = next((c for c in cases if c[2]["ev"] == "cnew"), None)   # (none if the process died in its first concurrent round)
    if cc:
        ctx.sample(events[cc[0] - 1:cc[0] + 12])
    seen = set()
    for i in res["bad"]:
        c = next((c for c in cases if c[0] <= i <= c[1]), None)
        if c is None or c[0] in seen:
            continue
        seen.add(c[0])
        e = events[i - 1]
        rec = dict(kind="concurrent" if c[2]["ev"] == "cnew" else "sequential", event=e["ev"], n=c[2]["n"])
        evs = events[c[0] - 1:c[1]]
        ctx.violation(rec, dict(events=evs[:400], rejected_event_index=i - c[0] + 1))
    for what, err in fatal[:2]:
        ctx.violation(dict(kind="fatal-runtime-error-under-concurrent-use", what=what[:60]), dict(stderr=err))
    races = [open(os.path.join(ctx.work, f)).read() for f in os.listdir(ctx.work) if f.startswith("race.")]
    ctx.extra["race_reports"] = len(races)
    for rep in races[:3]:
        where = re.findall(r"\n\s+(\S+go-ntrip\S+)\n", rep)[:2]
        ctx.violation(dict(kind="data-race", where=where[0] if where else "?"), dict(report=rep[:6000]))
    return ctx.finish(
        level="model_checking",
        rule="sequential: every Add/Get sequence of length 9 (thorough: 11-12) for each capacity 1..8 (exhaustive to that bound), plus runs of 20 000 (100 000) additions "
             "for capacities {1,2,3,8,20} with snapshots every 1-150 additions; concurrent: 1-3 adders with distinguishable ids and 1-3 snapshot readers free-running under the race "
             "detector, the addition order taken from the verif hook under the write lock, call/return order from an atomic counter; non-trivial = more than one operation",
        assumptions=["linearisation point of an addition = the hook inside the critical section (after the insertion, before Unlock)",
                     "a snapshot's position is determined by its last element because ids are unique; real-time consistency is checked against returned additions and returned snapshots",
                     "data races are observed by the Go race detector"],
        exhaustive=False)
