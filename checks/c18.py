"""C18 - the recent-message queue always holds the last N messages in arrival order (DESIGN.md 6/C18)."""
import json
import os
import re
import vlib


def run(ctx, replay):
    drv = ctx.build_harness(race=True)
    trace = ctx.path("c18.ndjson")
    cfgs = ["n1", "n2", "n3"] if not ctx.thorough() else ["n1", "n2_t", "n3_t"]
    for c in cfgs:
        ctx.tlc_mc("CircularQueue", "CircularQueue_MC_%s.cfg" % c, timeout=1500)
    r = ctx.tlc_mc("CircularQueue", "CircularQueue_MC_nolock.cfg", timeout=300, must_hold=False)
    if r["ok"]:
        raise vlib.Inconclusive("vacuity guard: the model without the lock should violate the property")
    racelog = ctx.path("race")
    ctx.drive(drv, ["c18", trace], timeout=1500, env={"GORACE": "halt_on_error=0 exitcode=0 log_path=" + racelog})
    # the concurrent histories once more in a build without the race detector (its instrumentation changes who runs when)
    trace2 = ctx.path("c18_plain.ndjson")
    ctx.drive(ctx.build_harness(), ["c18", trace2, "conc"], timeout=900)
    with open(trace, "a") as f:
        f.write(open(trace2).read())
    events = vlib.read_ndjson(trace)
    res = ctx.tlc_trace("C18_Trace", "C18_Trace.cfg", trace, timeout=1700)
    cases, cur = [], None
    for i, e in enumerate(events, 1):
        if e["ev"] in ("new", "cnew"):
            cur = [i, i, e]
            cases.append(cur)
        elif cur:
            cur[1] = i
    ctx.traces += len(cases)
    kinds = {"sequential": 0, "concurrent": 0}
    for c in cases:
        evs = events[c[0] - 1:c[1]]
        kind = "concurrent" if c[2]["ev"] == "cnew" else "sequential"
        kinds[kind] += 1
        sig = (c[2]["n"], kind, "".join(e["ev"][0] for e in evs[1:60]), len(evs)) if kind == "sequential" else (c[0],)
        ctx.count_case(sig, nontrivial=len(evs) > 2)
    ctx.extra["cases"] = kinds
    ctx.extra["events"] = len(events)
    ctx.sample(events[cases[5][0] - 1:cases[5][1]])
    cc = next(c for c in cases if c[2]["ev"] == "cnew")
    ctx.sample(events[cc[0] - 1:cc[0] + 12])
    seen = set()
    for i in res["bad"]:
        c = next((c for c in cases if c[0] <= i <= c[1]), None)
        if c is None or c[0] in seen:
            continue
        seen.add(c[0])
        e = events[i - 1]
        rec = dict(kind="concurrent" if c[2]["ev"] == "cnew" else "sequential", event=e["ev"], n=c[2]["n"])
        evs = events[c[0] - 1:c[1]]
        ctx.violation(rec, dict(events=evs[:400], rejected_event_index=i - c[0] + 1))
    races = [open(os.path.join(ctx.work, f)).read() for f in os.listdir(ctx.work) if f.startswith("race.")]
    ctx.extra["race_reports"] = len(races)
    for rep in races[:3]:
        where = re.findall(r"\n\s+(\S+go-ntrip\S+)\n", rep)[:2]
        ctx.violation(dict(kind="data-race", where=where[0] if where else "?"), dict(report=rep[:6000]))
    return ctx.finish(
        level="model_checking",
        rule="sequential: every Add/Get sequence of length 9 (thorough: 11-12) for each capacity 1..8 (exhaustive to that bound), plus runs of 20 000 (100 000) additions "
             "for capacities {1,2,3,8,20} with snapshots every 1-150 additions; concurrent: 1-3 adders with distinguishable ids and 1-3 snapshot readers free-running under the race "
             "detector, the addition order taken from the verif hook under the write lock, call/return order from an atomic counter; non-trivial = more than one operation",
        assumptions=["linearisation point of an addition = the hook inside the critical section (after the insertion, before Unlock)",
                     "a snapshot's position is determined by its last element because ids are unique; real-time consistency is checked against returned additions and returned snapshots",
                     "data races are observed by the Go race detector"],
        exhaustive=False)
