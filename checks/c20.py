"""C20 - message-type classification is total and consistent (DESIGN.md 6/C20)."""
import json
import re
import vlib


def run(ctx, replay):
    drv = ctx.build_harness()
    trace = ctx.path("c20.ndjson")
    ctx.drive(drv, ["c20", trace])
    # a fresh process whose first use of the library is concurrent display of every type
    trace2 = ctx.path("c20_conc.ndjson")
    r2 = ctx.drive(drv, ["c20", trace2, "concurrent"], ok_codes=(0, 1, 2))
    fatal = None
    conc = []
    if r2.returncode != 0:
        m = re.search(r"fatal error: [^\n]*", r2.stderr)
        if not m:
            raise vlib.Inconclusive("concurrent-display driver failed rc=%d:\n%s" % (r2.returncode, r2.stderr[-2000:]))
        fatal = m.group(0)
        conc = [dict(t=t, conc=True, ok=False) for t in range(4096)]     # the process died: no type was displayed to the end
    else:
        conc = vlib.read_ndjson(trace2)
    with open(trace, "a") as f:
        for e in conc:
            f.write(json.dumps(e) + "\n")
    events = vlib.read_ndjson(trace)
    res = ctx.tlc_trace("C20_Trace", "C20_Trace.cfg", trace)
    ctx.traces += 1
    for e in events:
        ctx.count_case((e["t"], e.get("t2")), nontrivial=True)
    for t in (-1, 1005, 1074, 1137, 1230, 4095):
        ctx.sample(events[t + 2])
    conc_bad = 0
    for i in res["bad"]:
        e = events[i - 1]
        if e.get("conc"):
            conc_bad += 1
            if conc_bad > 1:
                continue        # one report for the concurrent run
            ctx.violation(dict(kind="display-under-concurrent-first-use", what=(fatal or "panic or empty display")[:60]),
                          dict(event=e, stderr=r2.stderr[-3000:]))
            continue
        ctx.violation(dict(kind="crc-failing-frame-treated-by-its-type-bits" if e.get("crc") else ("time-dispatch" if ("t2" in e or e.get("roll")) else "classification"), type=e["t"]), dict(event=e))
    ctx.extra["types_enumerated"] = sum(1 for e in events if "t2" not in e and not e.get("conc") and not e.get("roll") and not e.get("crc"))
    ctx.extra["types_as_crc_failing_frames"] = sum(1 for e in events if e.get("crc"))
    ctx.extra["types_displayed_concurrently"] = sum(1 for e in events if e.get("conc"))
    ctx.extra["dispatch_pairs"] = sum(1 for e in events if "t2" in e)
    return ctx.finish(
        level="model_checking",
        rule="one case per message type in -2..4095 (complete enumeration, 4098 events, order and completeness checked by the spec); "
             "each event carries every classifier's answer on that type and on a synthetic CRC-valid frame of that type; plus all 48 ordered pairs of MSM types of different timed constellations (the time conversion of one must not be disturbed by the other); plus every type 0..4095 once more as a frame whose CRC check fails (not typed, no timestamp, no times); plus one event per type 0..4095 from a fresh process whose first use of the library is eight goroutines displaying a frame of every type at once",
        assumptions=["the synthetic frame (timestamp 1000, all-zero body, 40-byte payload) is well-formed for every decoder family, so "
                     "'accepted by exactly its own family' is observable as err == nil",
                     "constellation names are compared after normalisation (case-insensitive token gps/glonass/galileo/sbas/qzss/beidou/navic)"],
        exhaustive=True)
