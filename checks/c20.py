"""C20 - message-type classification is total and consistent (DESIGN.md 6/C20)."""
import json
import vlib


def run(ctx, replay):
    drv = ctx.build_harness()
    trace = ctx.path("c20.ndjson")
    ctx.drive(drv, ["c20", trace])
    events = vlib.read_ndjson(trace)
    res = ctx.tlc_trace("C20_Trace", "C20_Trace.cfg", trace)
    ctx.traces += 1
    for e in events:
        ctx.count_case((e["t"], e.get("t2")), nontrivial=True)
    for t in (-1, 1005, 1074, 1137, 1230, 4095):
        ctx.sample(events[t + 2])
    for i in res["bad"]:
        e = events[i - 1]
        ctx.violation(dict(kind="time-dispatch" if "t2" in e else "classification", type=e["t"]), dict(event=e))
    ctx.extra["types_enumerated"] = sum(1 for e in events if "t2" not in e)
    ctx.extra["dispatch_pairs"] = sum(1 for e in events if "t2" in e)
    return ctx.finish(
        level="model_checking",
        rule="one case per message type in -2..4095 (complete enumeration, 4098 events, order and completeness checked by the spec); "
             "each event carries every classifier's answer on that type and on a synthetic CRC-valid frame of that type; plus all 48 ordered pairs of MSM types of different timed constellations (the time conversion of one must not be disturbed by the other)",
        assumptions=["the synthetic frame (timestamp 1000, all-zero body, 40-byte payload) is well-formed for every decoder family, so "
                     "'accepted by exactly its own family' is observable as err == nil",
                     "constellation names are compared after normalisation (case-insensitive token gps/glonass/galileo/sbas/qzss/beidou/navic)"],
        exhaustive=True)
