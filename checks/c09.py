"""C09 - the reader-to-sinks pipeline delivers the same messages under every schedule (DESIGN.md 6/C09)."""
import json
import os
import re
import vlib


def params_module(nbytes, emit, caps, rechist, closeat):
    return ("---- MODULE Pipeline_Params ----\nEXTENDS Integers\n"
            "ParamNBytes == %d\nParamCloseAt == %d\nParamEmit == <<%s>>\nParamCaps == <<%s>>\nParamRecHist == %s\n====\n"
            % (nbytes, closeat, ", ".join(map(str, emit)), ", ".join(map(str, caps)), "TRUE" if rechist else "FALSE"))


def with_params(ctx, text):
    """Patch ctx._tlc_dir so that the next TLC run directory contains Pipeline_Params.tla."""
    orig = ctx._tlc_dir

    def patched():
        d = orig()
        with open(os.path.join(d, "Pipeline_Params.tla"), "w") as f:
            f.write(text)
        ctx._tlc_dir = orig
        return d
    ctx._tlc_dir = patched


def schedules(ctx, inputs):
    f = ctx.path("emit_inputs.ndjson")
    vlib.write_ndjson(f, [dict([("in", i["in"])]) for i in inputs])
    d = ctx._tlc_dir()
    os.symlink(f, os.path.join(d, "trace.ndjson"))
    rc, out, dt = ctx._run_tlc(d, "Framer_Emit", "Framer_Emit.cfg", 1, 600)
    if rc != 0:
        raise vlib.Inconclusive("Framer_Emit failed:\n" + out[-2000:])
    res = {}
    for m in re.finditer(r'<<"SCHED", (\d+), "(.*)">>', out):
        res[int(m.group(1))] = json.loads(m.group(2).encode().decode("unicode_escape"))
    if len(res) != len(inputs):
        raise vlib.Inconclusive("Framer_Emit returned %d schedules for %d inputs" % (len(res), len(inputs)))
    return [res[i + 1] for i in range(len(inputs))]


def run(ctx, replay):
    drv = ctx.build_harness(race=True)
    trace = ctx.path("c09.ndjson")
    beh_file = ctx.path("behaviours.ndjson")
    behs = []
    if replay:
        with open(replay) as f:
            rp = json.load(f)["replay"]
        behs = [rp["behaviour"]] if rp.get("behaviour") else []
    else:
        inp = ctx.path("inputs.ndjson")
        ctx.drive(drv, ["c09", "inputs", inp])
        inputs = vlib.read_ndjson(inp)
        scheds = schedules(ctx, inputs)
        nsim = 40 if ctx.thorough() else 12
        for k, (i, s) in enumerate(zip(inputs, scheds)):
            n = len(i["in"])
            # design level: all interleavings of this input / capacity configuration
            with_params(ctx, params_module(n, s["emit"], i["caps"], False, s["closeat"]))
            ctx.tlc_mc("Pipeline_MC", "Pipeline_MC.cfg", timeout=600)
            if ctx.thorough() or k == 0:
                with_params(ctx, params_module(n, s["emit"], i["caps"], False, s["closeat"]))
                ctx.tlc_mc("Pipeline_MC", "Pipeline_Live.cfg", timeout=900)
            # direction B: behaviours (sequences of hook passes) to force on the real goroutines
            with_params(ctx, params_module(n, s["emit"], i["caps"], True, s["closeat"]))
            out = ctx.tlc_simulate("Pipeline_MC", "Pipeline_Sim.cfg", num=nsim, depth=40 + 8 * n + 6 * len(s["emit"]) * len(i["caps"]))
            seen = set()
            for m in re.finditer(r'<<"BEH", "(.*)">>', out):
                h = json.loads(m.group(1).encode().decode("unicode_escape"))["hist"]
                key = json.dumps(h)
                if key in seen:
                    continue
                seen.add(key)
                behs.append(dict([("in", i["in"]), ("caps", i["caps"]), ("hist", h)]))
        if len(behs) < 5:
            raise vlib.Inconclusive("TLC produced too few behaviours (%d)" % len(behs))
    vlib.write_ndjson(beh_file, behs)
    ctx.extra["tlc_behaviours_replayed"] = len(behs)
    racelog = ctx.path("race")
    ctx.drive(drv, ["c09", "run", beh_file, trace], timeout=1700, env={"GORACE": "halt_on_error=0 exitcode=0 log_path=" + racelog})
    if not replay:
        # timing-sensitive interactions in a build without the race detector
        plain = ctx.build_harness()
        trace2 = ctx.path("c09_timing.ndjson")
        ctx.drive(plain, ["c09", "timing", trace2], timeout=900)
        with open(trace, "a") as f:
            f.write(open(trace2).read())
    events = vlib.read_ndjson(trace)
    res = ctx.tlc_trace("C09_Trace", "C09_Trace.cfg", trace, timeout=1200)
    # cases
    cases, cur = [], None
    for i, e in enumerate(events, 1):
        if e["ev"] == "case":
            cur = [i, i, e]
            cases.append(cur)
        elif cur:
            cur[1] = i
    ctx.traces += len(cases)
    modes, drift = {}, []
    bi = 0
    for c in cases:
        e0 = c[2]
        modes[e0["mode"]] = modes.get(e0["mode"], 0) + 1
        end = events[c[1] - 1]
        ctx.count_case((e0["mode"], e0["ref"], e0["caps"], e0["procs"], c[0]), nontrivial=len(e0["ref"]) > 0)
        if end.get("drift"):
            drift.append(end["drift"])
        if e0["mode"] == "gated":
            c.append(None)
        else:
            c.append(None)
    ctx.extra["cases_by_mode"] = modes
    ctx.extra["model_drift"] = drift[:5] if drift else None
    if drift:
        vlib.log("NOTE model-drift C09: %d gated replays left the Pipeline model, e.g. %s" % (len(drift), drift[0]))
        if all(d.startswith("step 0:") for d in drift) and len(drift) >= 3 and not res["bad"]:
            raise vlib.Inconclusive("no gated replay got past its first hook (hooks not compiled in?): " + drift[0])
    for c in cases[:1] + cases[-1:]:
        ctx.sample(events[c[0] - 1:min(c[1], c[0] + 6)])
    seen_cases = set()
    for i in res["bad"]:
        c = next((c for c in cases if c[0] <= i <= c[1]), None)
        if c is None or c[0] in seen_cases:
            continue
        seen_cases.add(c[0])
        e = events[i - 1]
        end = events[c[1] - 1]
        rec = dict(mode=c[2]["mode"], event=e["ev"])
        if e["ev"] == "end":
            rec["kind"] = "panic" if end["panic"] else ("did-not-return" if not end["returned"] else ("goroutine-leak" if end["leaked"] else "missing-messages"))
        else:
            rec["kind"] = "wrong-message"
        ctx.violation(rec, dict(events=events[c[0] - 1:c[1]][:300]))
    races = [open(os.path.join(ctx.work, f)).read() for f in os.listdir(ctx.work) if f.startswith("race.")]
    ctx.extra["race_reports"] = len(races)
    for rep in races[:3]:
        where = re.findall(r"\n\s+(\S+go-ntrip\S+)\n", rep)[:2]
        ctx.violation(dict(kind="data-race", where=where[0] if where else "?"), dict(report=rep[:6000]))
    return ctx.finish(
        level="model_checking",
        rule="one case = (input bytes, consumer capacities incl. nil entries, schedule): gated cases replay TLC-simulated behaviours (replay stops after three consecutive schedules the code cannot follow) of Pipeline.tla (sequences of hook "
             "passes of reader / framer / fan-out / consumers, channel operations urgent) on the real goroutines through the verif hooks; free cases run the real pipeline "
             "under the race detector with GOMAXPROCS in {1,2,4,16}, seeded yields/sleeps at every hook, random-size chunked readers, scripted feed / receive / settle interactions of a one-slot slow consumer with bursty input (GOMAXPROCS 1, 2, 4), the same AppCore handling two inputs in a row with nil entries in its consumer list, slow and fast consumers, one consumer lagging 1.5 ms per message behind 30-80 short messages, buffered and "
             "unbuffered channels; each consumer's messages are compared with the real framer run sequentially on the same bytes; non-trivial = at least one message",
        assumptions=["the framer's emission schedule used as model constant is computed by FramerCore on the real bytes (Framer_Emit.tla)",
                     "goroutine termination is judged by runtime.NumGoroutine settling within 5 s; a double close / send on closed channel is a Go panic",
                     "a replay that cannot follow the model's schedule is model drift (exit status unaffected unless most replays fail: then inconclusive)"],
        exhaustive=False)
