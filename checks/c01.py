"""C01 - only complete CRC-valid frames are ever presented as typed RTCM messages."""
import framer_common


def run(ctx, replay):
    return framer_common.run_family(
        ctx, replay, key="c01", mode="c01", n_quick=8, n_thorough=11,
        rule="one case = one byte stream through the real HandleMessages or one buffer through GetMessage; classes: valid frames of every "
             "type class and payload length (all 1..1023 in thorough), each CRC byte altered alone and all three, CRC-valid frames with "
             "reserved bits set / zero length / declared length shorter or longer than the buffer (CRC recomputed over the whole buffer), "
             "valid frame plus trailing bytes, 1-3 bit flips anywhere incl. the leader, every truncation, junk and garbage with 0xD3; "
             "non-trivial = non-empty input",
        assumptions=["IsValidFrame with the real CRC-24Q is evaluated in TLA+ (Frame.tla) on the delivered raw bytes",
                     "single-frame decoding: a typed message returned without error must carry raw bytes that are a valid frame and a prefix of the "
                     "given buffer (the repository's own TestGetMessage hands GetMessage a multi-frame batch and expects the first frame)"])
