"""C04 - MSM4/MSM7 messages decode to exactly the encoded header and cell data."""
import json
import re
import vlib


def run(ctx, replay):
    drv = ctx.build_harness()
    trace = ctx.path("c04.ndjson")
    if replay:
        with open(replay) as f:
            vlib.write_ndjson(trace, [json.load(f)["replay"]["event"]])
    else:
        ctx.drive(drv, ["c04", trace])
    events = vlib.read_ndjson(trace)
    res = ctx.tlc_trace("C04_Trace", "C04_Trace.cfg", trace, timeout=1700)
    ctx.traces += 1
    m = re.search(r'"WELLFORMED",\s*(\d+)', res["out"])
    nwf = int(m.group(1)) if m else 0
    ctx.extra["generated"] = len(events)
    ctx.extra["well_formed_by_spec"] = nwf
    if not replay and nwf < len(events) * 0.9:
        raise vlib.Inconclusive("generator is mostly producing messages the spec does not regard as well-formed (%d of %d)" % (nwf, len(events)))
    cls = {}
    for e in events:
        ctx.count_case((e["raw"], e["path"]), True)
        cls[e["cls"]] = cls.get(e["cls"], 0) + 1
    ctx.extra["classes"] = cls
    ctx.extra["padded_cases"] = sum(1 for e in events if e["pad"] > 0)
    for e in events[:1] + events[len(events) // 2:len(events) // 2 + 1]:
        s = dict(e)
        s["raw"] = s["raw"][:40] + ["...(%d bytes)" % len(e["raw"])]
        ctx.sample(s)
    for i in res["bad"]:
        e = events[i - 1]
        if e["panic"]:
            kind = "panic"
        elif e["err"]:
            kind = "rejected"
        else:
            kind = "wrong-decode"
        rec = dict(kind=kind, msm7=(e["raw"][3] * 16 + e["raw"][4] // 16) % 10 == 7, padded=e["pad"] > 0, path=e["path"],
                   last_cell_zero=e["cls"].endswith("/zero") or e["cls"].endswith("/min") and False)
        ctx.violation(rec, dict(event=e))
    # the same cases in a 32-bit build of the library (int and uint are 32 bits wide there)
    # and as a static binary in an empty root directory (no time zone database, no environment)
    variants = [] if replay else [("GOARCH=386", ctx.trace_32bit(["c04"], trace)), ("static binary in an empty root directory", ctx.trace_bare(["c04"], trace))]
    for build, tv in variants:
        if not tv:
            continue
        evv = vlib.read_ndjson(tv)
        resv = ctx.tlc_trace("C04_Trace", "C04_Trace.cfg", tv, timeout=1700)
        ctx.traces += 1
        for i in resv["bad"]:
            e = evv[i - 1]
            ctx.violation(dict(kind="other-build-or-environment", path=e["path"], cls=e["cls"]), dict(event=e, build=build))
    return ctx.finish(
        level="model_checking",
        rule="one case = (frame, path decoder|handler); frames produced by the harness encoder over 14 types x mask shapes {empty, 1xN, Nx1 up to 64x1, "
             "8x8, sparse, random <= 64 cells, no cell, typical} x field values {mixed, random, all min ('invalid' markers), all max, all zero, all ones} x "
             "multiple-message flag x trailing zero padding {0, 1-3, 10, 20-59, up to the 1023-byte limit}; MSM!WellFormedMSM decides the precondition "
             "(ratio reported); distinct = distinct (frame, path)",
        assumptions=["MSM.tla is an executable format definition written from the standard's layout (RTKLIB field tables), TLC is its evaluator",
                     "the harness encoder is independent of the oracle: expected values are read by TLA+ from the raw bytes"],
        exhaustive=False)
