"""C16 - rtcmlogger passes its input through unchanged and records an identical copy (DESIGN.md 6/C16)."""
import datetime
import hashlib
import json
import os
import random
import subprocess
import threading
import time
import vlib
from c10 import build_binary


def sha(b):
    return hashlib.sha1(b).hexdigest()


def run_live(ctx, binary, data, n):
    """The input arrives as one burst and stdin then stays open and silent: the pass-through must not wait for more."""
    d = ctx.path("live%d" % n)
    os.makedirs(d)
    logdir = os.path.join(d, "rec")
    cfg = os.path.join(d, "cfg.json")
    with open(cfg, "w") as f:
        json.dump({"log_events": False, "message_log_directory": logdir}, f)
    day1 = datetime.date.today().isoformat()
    p = subprocess.Popen([binary, "-c", cfg], cwd=d, stdin=subprocess.PIPE, stdout=subprocess.PIPE, stderr=subprocess.PIPE)
    got = bytearray()
    lock = threading.Lock()

    def rd():
        while True:
            b = p.stdout.read1(65536) if hasattr(p.stdout, "read1") else p.stdout.read(1)
            if not b:
                return
            with lock:
                got.extend(b)
    t = threading.Thread(target=rd)
    t.start()
    try:
        p.stdin.write(data)
        p.stdin.flush()
    except (BrokenPipeError, OSError):
        pass                                # the program has gone already: its exit status and what it wrote are judged below
    deadline = time.time() + 8
    while time.time() < deadline:
        with lock:
            if len(got) >= len(data):
                break
        if p.poll() is not None:
            break
        time.sleep(0.01)
    with lock:
        while_open = bytes(got)
    try:
        p.stdin.close()
    except (BrokenPipeError, OSError):
        pass
    try:
        rc = p.wait(timeout=60)
        ret = "" if rc == 0 else "exit %d" % rc
    except subprocess.TimeoutExpired:
        p.kill()
        ret = "timeout"
    t.join(10)
    out = bytes(got)
    day2 = datetime.date.today().isoformat()
    fbytes, has = b"", False
    for day in (day1, day2):
        fn = os.path.join(logdir, "rtcmlogger.%s.rtcm" % day)
        if os.path.exists(fn):
            fbytes, has = open(fn, "rb").read(), True
            break
    return dict(rec_broken=False, pre_len=0, pre_kept=True, in_len=len(data), in_sha=sha(data), out_len=len(out), out_sha=sha(out), file_len=len(fbytes), file_sha=sha(fbytes), has_file=has,
                ret=ret, small=False, pause=False, chunk=len(data), midnight=day1 != day2, live=True, live_complete=while_open == data,
                live_len=len(while_open), **{"in": [], "out": [], "file": []})


HANGS = [0]
ZONED = [0]


def run_logger(ctx, binary, data, seed, chunk, pause_ms, n, **kw):
    """One run; once three runs have failed to end after end of input the remaining runs are skipped (each would wait two
    minutes to say the same thing)."""
    if HANGS[0] >= 3:
        return dict(midnight=True)          # dropped
    ev = run_logger1(ctx, binary, data, seed, chunk, pause_ms, n, **kw)
    if ev.get("ret") == "timeout":
        HANGS[0] += 1
    return ev


def run_logger1(ctx, binary, data, seed, chunk, pause_ms, n, paced=False, pre=b"", stall_out=0.0, rec_broken=False):
    d = ctx.path("run%d" % n)
    os.makedirs(d)
    # every third run keeps its record in a directory with a long name (a configuration file of 500-700 bytes)
    logdir = os.path.join(d, "rec" if n % 3 else "records-of-the-reference-station-" + "x" * 180, "rtcm")
    if rec_broken:
        # the filestore of the record is full: every write to the day's file fails with ENOSPC (the name is a link to /dev/full)
        os.makedirs(logdir, exist_ok=True)
        os.symlink("/dev/full", os.path.join(logdir, "rtcmlogger.%s.rtcm" % datetime.date.today().isoformat()))
    if pre:
        # the program is restarted on the same day: the day's record already exists and is continued
        os.makedirs(logdir, exist_ok=True)
        with open(os.path.join(logdir, "rtcmlogger.%s.rtcm" % datetime.date.today().isoformat()), "wb") as f:
            f.write(pre)
    cfg = os.path.join(d, "cfg.json")
    with open(cfg, "w") as f:
        # every second run has the event log switched on (its own directory): it must make no difference
        # ... and every fifth run keeps the event log in the SAME directory as the record (two daily files side by side)
        conf = {"log_events": n % 2 == 1, "event_log_directory": logdir if n % 5 == 4 else os.path.join(d, "events"),
                "message_log_directory": logdir}
        k = -1
        if not pre and not rec_broken:
            k = ZONED[0]
            ZONED[0] += 1
        if k >= 0 and (k // 4) % 2 == 0:
            conf["directory_for_old_message_logs"] = os.path.join(d, "old-records")     # a configured field the program may or may not use
        json.dump(conf, f)
    env = dict(os.environ)
    dates = []
    if k >= 0 and k % 4 < 3:
        # the program runs in a time zone whose date differs from UTC's for part of every day; "the day's record" is the one
        # named after a date that is today somewhere (every zone occurs with and without the directory for old records)
        z = k % 4
        env["TZ"] = ["Pacific/Kiritimati", "Etc/GMT+12", "Etc/GMT+1"][z]
        u = datetime.datetime.utcnow()
        offs = [14, -12, -1]
        dates = [(u + datetime.timedelta(hours=h)).date().isoformat() for h in [offs[z], 0] + offs]
    if pause_ms:
        env["VERIF_PAUSE_rec.write"] = str(pause_ms)
    rng = random.Random(seed)
    day1 = datetime.date.today().isoformat()
    p = subprocess.Popen([binary, "-c", cfg], cwd=d, env=env, stdin=subprocess.PIPE, stdout=subprocess.PIPE, stderr=subprocess.PIPE)
    outbuf = []
    go_read = threading.Event()
    if not stall_out:
        go_read.set()

    def reader():
        go_read.wait()
        outbuf.append(p.stdout.read())
    t = threading.Thread(target=reader)
    t.start()
    i = 0
    try:
        if stall_out:
            # whoever reads our stdout is busy: nothing is taken from the pipe until well after the input has ended
            threading.Timer(stall_out, go_read.set).start()
            w = threading.Thread(target=lambda: (p.stdin.write(data), p.stdin.close()))
            w.daemon = True
            w.start()
            i = len(data)
            w.join(stall_out + 60)
        while i < len(data):
            k = chunk if paced else rng.randint(1, chunk)
            p.stdin.write(data[i:i + k])
            p.stdin.flush()
            i += k
            if paced:
                time.sleep(0.003)          # every chunk arrives as its own read
            elif rng.random() < 0.15:
                time.sleep(rng.random() * 0.004)
        if not stall_out:
            p.stdin.close()
    except (BrokenPipeError, OSError):
        try:
            p.stdin.close()
        except OSError:
            pass
    try:
        rc = p.wait(timeout=120)
        ret = "" if rc == 0 else "exit %d" % rc
    except subprocess.TimeoutExpired:
        p.kill()
        ret = "timeout"
    t.join(10)
    err = p.stderr.read().decode(errors="replace")
    if "panic" in err or "goroutine " in err:
        ret = "crash: " + err[:300]
    day2 = datetime.date.today().isoformat()
    out = outbuf[0] if outbuf else b""
    fbytes, has = b"", False
    if dates:
        # (the date may have changed in that zone while the program ran)
        u = datetime.datetime.utcnow()
        after = [(u + datetime.timedelta(hours=h)).date().isoformat() for h in (14, 0, -12, -1)]
        if dates[0] != after[[14, 0, -12, -1].index(offs[z])]:
            day2 = "date changed in the program's zone"        # the run straddles its midnight: dropped like a run over ours
        dates = dates + after
    for day in dates + [day1, day2]:
        fn = os.path.join(logdir, "rtcmlogger.%s.rtcm" % day)
        if os.path.exists(fn) and not os.path.islink(fn):      # (never read the /dev/full link: it is an endless source)
            fbytes, has = open(fn, "rb").read(), True
            break
    if rec_broken:
        fbytes, has = data, True          # nothing can be read back from /dev/full: only the pass-through and the exit are judged
    pre_kept = fbytes[:len(pre)] == pre
    if pre_kept:
        fbytes = fbytes[len(pre):]
    small = len(data) <= 1500
    ev = dict(rec_broken=rec_broken, pre_len=len(pre), pre_kept=pre_kept, in_len=len(data), in_sha=sha(data), out_len=len(out), out_sha=sha(out), file_len=len(fbytes), file_sha=sha(fbytes), has_file=has,
              ret=ret, small=small, pause=bool(pause_ms), chunk=chunk, midnight=day1 != day2, live=False, live_complete=True, live_len=len(out),
              **{"in": list(data) if small else [], "out": list(out) if small else [], "file": list(fbytes) if small else []})
    return ev


def run(ctx, replay):
    for cfg in ("Logger_TRUE.cfg",):
        ctx.tlc_mc("Logger", cfg, workers=1, timeout=300)
    r = ctx.tlc_mc("Logger", "Logger_FALSE.cfg", workers=1, timeout=300, must_hold=False)
    if r["ok"]:
        raise vlib.Inconclusive("Logger.tla with WaitForRecorder = FALSE no longer violates C16")
    binary = build_binary(ctx, "rtcmlogger")
    rng = random.Random(ctx.seed * 7919 + 16)
    block = 8096
    sizes = [0, 1, 17, block - 1, block, block + 1, 3 * block + 5]
    if ctx.thorough():
        sizes += [2 * block, 2 * block - 1, 5 * block + 123, 100, 1000, 20000, 65536, 200000]
    jobs = []
    for s in sizes:
        data = bytes(rng.getrandbits(8) for _ in range(s))
        if s and s % 3 == 0:
            data = bytes([0xd3, 0, 0]) + data[3:]
        # the forced schedule (recorder held before its write while main reaches EOF and exits) ...
        jobs.append((data, rng.getrandbits(30), [block, 1000, 4 * block][s % 3], 250))
        # ... and the natural race, several chunkings
        for chunk in ([s + 1, 100] if not ctx.thorough() else [s + 1, 1, 100, block, 3 * block]):
            if chunk == 1 and s > 3000:
                continue
            jobs.append((data, rng.getrandbits(30), max(1, chunk), 0))
    # one very large input: 12 MB (thorough: also 40 MB) of pseudo-random bytes in 64 kB chunks
    for big in ([12] if not ctx.thorough() else [12, 40]):
        r2 = random.Random(ctx.seed + big)
        jobs.append((r2.randbytes(big * 1024 * 1024 + 17), rng.getrandbits(30), 65536, 0))
    # many small blocks, each its own read, while the recorder is slow (it falls many blocks behind)
    for k in range(6 if ctx.thorough() else 2):
        nblk = rng.randint(14, 24)
        data = bytes(rng.getrandbits(8) for _ in range(nblk * rng.randint(150, 900)))
        jobs.append((data, rng.getrandbits(30), -(len(data) // nblk), 60))
    events = []
    # restarts on the same day: the day's record file already holds an earlier run's bytes
    for k, (npre, nin) in enumerate([(700, 300), (block + 5, 2 * block), (1, 0)] + ([(3 * block, 1), (10, block)] if ctx.thorough() else [])):
        pre = bytes(rng.getrandbits(8) for _ in range(npre))
        data = bytes(rng.getrandbits(8) for _ in range(nin))
        ev = run_logger(ctx, binary, data, rng.getrandbits(30), max(1, nin), 0, 900 + k, pre=pre)
        if not ev["midnight"]:
            events.append(ev)
    # recording fails (filestore full) from the first block on: the pass-through carries on and the program ends
    for k, (size, chunk) in enumerate([(5000, 1000), (30000, 8096)] + ([(100000, 4000)] if ctx.thorough() else [])):
        data = bytes(rng.getrandbits(8) for _ in range(size))
        ev = run_logger(ctx, binary, data, rng.getrandbits(30), chunk, 0, 970 + k, paced=True, rec_broken=True)
        ev["chunk"] = -4
        if not ev["midnight"]:
            events.append(ev)
    # the consumer of stdout is stalled until 3 s after the input has ended (more data than a pipe holds is in flight)
    for k, size in enumerate([150000] + ([400000, 70000] if ctx.thorough() else [])):
        r3 = random.Random(ctx.seed * 31 + size)
        ev = run_logger(ctx, binary, r3.randbytes(size), rng.getrandbits(30), size, 0, 950 + k, stall_out=3.0)
        ev["chunk"] = -3
        if not ev["midnight"]:
            events.append(ev)
    for n, (data, seed, chunk, pause) in enumerate(jobs):
        if chunk < 0:      # fixed-size paced chunks
            ev = run_logger(ctx, binary, data, seed, -chunk, pause, n, paced=True)
            ev["chunk"] = chunk
        else:
            ev = run_logger(ctx, binary, data, seed, chunk, pause, n)
        if not ev["midnight"]:
            events.append(ev)
    # live pass-through: a burst, then silence on an open stdin (also bursts that exactly fill the 8096-byte block)
    for k, size in enumerate([100, block, 2 * block, block + 1] + ([3 * block, 8 * block, block - 1] if ctx.thorough() else [])):
        data = bytes(rng.getrandbits(8) for _ in range(size))
        ev = run_live(ctx, binary, data, k)
        if not ev["midnight"]:
            events.append(ev)
    if not events:
        raise vlib.Inconclusive("no usable run")
    trace = ctx.path("c16.ndjson")
    vlib.write_ndjson(trace, events)
    res = ctx.tlc_trace("C16_Trace", "C16_Trace.cfg", trace, timeout=900)
    ctx.traces += len(events)
    for e in events:
        ctx.count_case((e["in_sha"], e["chunk"], e["pause"]), nontrivial=e["in_len"] > 0)
    ctx.extra["runs"] = dict(forced_schedule=sum(1 for e in events if e["pause"]), natural=sum(1 for e in events if not e["pause"]))
    ctx.extra["input_sizes"] = sorted({e["in_len"] for e in events})
    ctx.sample({k: v for k, v in events[1].items() if k not in ("in", "out", "file")})
    ctx.sample({k: v for k, v in events[-1].items() if k not in ("in", "out", "file")})
    for i in res["bad"]:
        e = events[i - 1]
        rec = dict(kind="earlier-record-of-the-day-lost" if not e["pre_kept"] else
                   "pass-through-withheld-while-stdin-open" if e["live"] and not e["live_complete"] else
                   "record-file-incomplete" if e["file_len"] < e["in_len"] else ("stdout-differs" if e["out_sha"] != e["in_sha"] else "other"),
                   forced_schedule=e["pause"], ret=e["ret"][:20])
        ctx.violation(rec, dict(event={k: v for k, v in e.items() if k not in ("in", "out", "file")}))
    return ctx.finish(
        level="model_checking",
        rule="one case = (input bytes, chunking/timing of stdin, schedule) through the built rtcmlogger binary over OS pipes, exit awaited, record file read afterwards; sizes around "
             "the 8096-byte block (0, 1, 17, 8095, 8096, 8097, 3x8096+5, 12 MB; thorough: up to 40 MB), binary content; schedule: the Logger.tla counterexample forced with "
             "VERIF_PAUSE_rec.write (recorder held before its write while the copy loop reaches EOF and main exits) free-running, restarts on the same day (the day's record file already holds an earlier run's bytes and must keep them in front of the new ones), a consumer of stdout that takes nothing until 3 s after the input has ended (150 kB in flight), a record file on a full filestore (every write fails with ENOSPC: the pass-through must carry on and the program end), and 'live' runs in which a burst (incl. exactly 1 and 2 blocks) is followed by silence on an open stdin and must appear on stdout within 8 s; non-trivial = non-empty input",
        assumptions=["equality is judged on length and SHA-1 for every run and byte by byte for inputs up to 1500 bytes",
                     "the pause only delays the recorder: on a correct implementation it merely slows the exit",
                     "runs during which the local date changed are dropped"],
        exhaustive=False)
