"""C02 - stream segmentation is lossless; the output is closed exactly once."""
import framer_common


def run(ctx, replay):
    return framer_common.run_family(
        ctx, replay, key="c02", mode="c02", n_quick=8, n_thorough=11,
        rule="one case = (byte stream, input channel capacity in {0,1,8,len+1}, output capacity in {0,1,4}, pacing of producer/consumer) "
             "through the real HandleMessages; streams: every prefix of structured streams (ending inside leader, payload, CRC, after a "
             "lone 0xD3), special short streams, arbitrary garbage with embedded 0xD3, mixtures, long frames with tails; per message the "
             "spec requires non-empty raw bytes equal to the next input bytes, at close everything delivered, exactly one close, no panic, "
             "no hang (30 s bound); non-trivial = non-empty stream",
        assumptions=["a second close is observed as the Go runtime panic 'close of closed channel' in the handler goroutine",
                     "a missing close is judged by a 30 s bound (normal latency is microseconds)"])
