"""C08 - ranges, phase ranges and range rates equal the standard's formulas."""
import json
import re
import vlib


def run(ctx, replay):
    drv = ctx.build_harness()
    trace = ctx.path("c08.ndjson")
    out = ctx.tlc_eval("Ranges_Export", "Ranges_Export.cfg", workers=1)
    m = re.search(r'<<"EXPORT", "(.*)">>', out)
    if not m:
        raise vlib.Inconclusive("no constants exported by Ranges.tla")
    consts = ctx.path("ranges_consts.json")
    with open(consts, "w") as f:
        f.write(m.group(1).encode().decode("unicode_escape"))
    if replay:
        with open(replay) as f:
            vlib.write_ndjson(trace, [json.load(f)["replay"]["event"]])
    else:
        ctx.drive(drv, ["c08", consts, trace])
    events = vlib.read_ndjson(trace)
    res = ctx.tlc_trace("C08_Trace", "C08_Trace.cfg", trace, timeout=1500)
    ctx.traces += 1
    wholes, sigs, inv = set(), set(), 0
    for e in events:
        ctx.count_case((e["fam"], e["con"], e["sig"], e["whole"], e["frac"], e["fine"], e["phase"], e["rough_rate"], e["fine_rate"]), True)
        wholes.add(e["whole"])
        if e["freq_khz"]:
            sigs.add((e["con"], e["sig"]))
        inv += 1 if e["n_invalid"] else 0
    ctx.extra["whole_ms_values_covered"] = len(wholes)
    ctx.extra["signals_with_documented_frequency_covered"] = len(sigs)
    ctx.extra["cells_with_invalid_rough_value"] = inv
    ctx.extra["note_frequency_table"] = ("BeiDou signal ids 14-16 are B2I (1207.14 MHz) in RTKLIB's msm_sig_cmp; the library documents and uses B2a 1176.45 MHz; "
                                         "the check follows the documented value (the property's scope) and does not flag it")
    for e in [x for x in events if x.get("text")][:4]:
        ctx.sample(e)
    for i in res["bad"]:
        e = events[i - 1]
        rec = dict(kind="panic" if e["panic"] else ("float:" + e["float_err"] if not e["float_ok"] else "aggregate-or-invalid-marker"), fam=e["fam"])
        ctx.violation(rec, dict(event=e))
    # the same cells in a 32-bit build (the aggregates are 64-bit values held in int / uint fields elsewhere) and as a static
    # binary in an empty root directory
    variants = [] if replay else [("GOARCH=386", ctx.trace_32bit(["c08", consts], trace)), ("static binary in an empty root directory", ctx.trace_bare(["c08", consts], trace))]
    for build, tv in variants:
        if not tv:
            continue
        evv = vlib.read_ndjson(tv)
        resv = ctx.tlc_trace("C08_Trace", "C08_Trace.cfg", tv, timeout=1500)
        ctx.traces += 1
        for j in resv["bad"]:
            e = evv[j - 1]
            ctx.violation(dict(kind="other-build-or-environment", fam=e["fam"], con=e["con"], build=build), dict(event=e, build=build))
    return ctx.finish(
        level="model_checking",
        rule="one case = one decoded signal cell of an encoder-generated MSM4/MSM7 frame (4 constellations x 2 families): whole ms sweeps 0..255 incl. the invalid "
             "marker, fractional part over {0,1,511,512,1023} and random, fine range / phase / rates over {min = invalid marker, min+1, -1, 0, 1, max, random}, all 32 signal ids; "
             "distinct = distinct field tuples",
        assumptions=["TLC decides the scaled-integer aggregates (split at 2^19 / 2^21 to stay inside 32-bit integers) and the invalid-marker case analysis",
                     "the floating-point results (metres, cycles, m/s, Hz, wavelength) cannot be decided by TLC (no reals): the harness checks them in exact rational arithmetic "
                     "(math/big) within 8 ulp, using only constants exported from Ranges.tla (c, 2^-29, 2^-31, 10^-4, frequency table)",
                     "scope as stated by the property: non-negative true value, wavelength defined; frequencies as documented in rtcm/utils"],
        exhaustive=False)
