"""C19 - the proxy relays both directions byte-for-byte and reports traffic safely (DESIGN.md 6/C19)."""
import json
import os
import random
import re
import socket
import ssl
import subprocess
import threading
import time
import urllib.request
import vlib
import pygen
from c10 import build_binary

HTML = [b"<script>alert(1)</script>", b"</pre></code><h1>x</h1>", b"<", b">", b"<<>>", b"<img src=x onerror=y>", b"a<b>c"]


class NoUpstream(Exception):
    pass


def free_port():
    s = socket.socket()
    s.bind(("127.0.0.1", 0))
    p = s.getsockname()[1]
    s.close()
    return p


def client_stream(rng, kind):
    if kind == "reportrace":
        # a long stream of short messages: the queue of recent messages is updated tens of thousands of times
        out = b""
        while len(out) < 400000:
            out += pygen.frame(pygen.payload(rng, rng.choice([1005, 1230] + pygen.MSM), rng.randint(4, 30)))
        return out
    if kind == "slowserver":
        # several hundred kilobytes: more than the socket buffers between the proxy and a server that is not reading
        out = b""
        while len(out) < 600000:
            # now and then one of the longest frames there are (payload 1017..1023, frame up to 1029 bytes)
            ln = rng.choice([1017, 1018, 1019, 1021, 1023]) if rng.random() < 0.04 else rng.randint(100, 900)
            out += pygen.frame(pygen.payload(rng, rng.choice([1005, 1230] + pygen.MSM), ln))
        return out
    if kind == "bigburst":
        # far more than any internal buffer, no pauses: the relay may run ahead of the parser, the report must still be truthful
        out = b""
        while len(out) < 90000:
            out += pygen.frame(pygen.payload(rng, rng.choice([1005, 1230] + pygen.MSM), rng.randint(8, 40)))
        return out
    if kind == "burst":
        # exactly k x 2048 bytes in one write, then silence: nothing may be withheld waiting for more
        out = b""
        want = 2048 * rng.choice([1, 2, 3])
        while len(out) < want - 400:
            out += pygen.frame(pygen.payload(rng, rng.choice([1005, 1230] + pygen.MSM), rng.randint(20, 300)))
        pad = want - len(out)
        return out + (pygen.frame(pygen.payload(rng, 1019, pad - 6)) if pad >= 7 else pygen.junk(rng, pad))
    if kind == "bulk":
        # more than the proxy's 2048-byte read buffer, frames starting exactly at the buffer boundaries
        out = b""
        for k in range(rng.randint(3, 5)):
            seg = b""
            while len(seg) < 2048 - 400:
                seg += pygen.frame(pygen.payload(rng, rng.choice([1005, 1230] + pygen.MSM), rng.randint(20, 300)))
            pad = 2048 - len(seg)
            seg += pygen.frame(pygen.payload(rng, 1019, pad - 6)) if pad >= 7 else pygen.junk(rng, pad)
            out += seg
        return out + pygen.frame(pygen.payload(rng, 1006, 21))
    parts = []
    n = rng.randint(2, 12) if kind != "many" else rng.randint(25, 40)
    for i in range(n):
        r = rng.random()
        if kind == "random":
            parts.append(bytes(rng.getrandbits(8) for _ in range(rng.randint(1, 200))))
        elif kind == "html" or (kind in ("mixed", "many") and r < 0.25):
            h = rng.choice(HTML)
            if rng.random() < 0.5:
                parts.append(pygen.frame(pygen.payload(rng, rng.choice([1005, 1230, 1029, 4095] + pygen.MSM), rng.randint(len(h) + 2, 80), fill=b"\x3e\xd0" + h)))
            else:
                parts.append(h + pygen.junk(rng, rng.randint(0, 10)).replace(b"\xd3", b"x") + b"\r\n")
        elif kind == "malformed" or (kind == "mixed" and r < 0.5):
            t = rng.choice(pygen.MSM + [1005, 1006])
            ln = rng.choice([1, 2, 3, 6, 7, 10, 21, 22, 30, 60, 200])
            parts.append(pygen.frame(pygen.payload(rng, t, ln, fill=rng.choice([None, b"\xff", b"\x00"]))))
        else:
            parts.append(pygen.frame(pygen.payload(rng, rng.choice([1005, 1006, 1019, 1230, 4094] + pygen.MSM),
                                               rng.choice([1016, 1019, 1020, 1022, 1023]) if rng.random() < 0.12 else rng.randint(1, 300))))
    if rng.random() < 0.5:
        parts.append(pygen.frame(pygen.payload(rng, 1077, 100))[:rng.randint(1, 60)])   # partial frame at the end
    return b"".join(parts)


def session(ctx, binary, n, rng, kind, cert=None):
    """kind: what the client sends (client_stream) - or one of the end-of-session kinds:
       close      plain TCP; the client sends everything in one go and closes at once
       tls12close the same through the TLS proxy with TLS 1.2 on both legs (data and close_notify arrive together)
       tls13      an ordinary session through the TLS proxy (TLS 1.3)
       second     after an ordinary session the client leaves and a second client uses the same proxy process
       quiet      the proxy is started with -q (message log off)
       loglevel0  the message log is turned off through /status/loglevel/0 before the traffic starts
       slowserver the upstream server reads nothing for 2 s while the client sends 600 kB
       reportrace three threads reload /status/report all the time while 400 kB of short messages flow
       cmdline    hosts and ports given on the command line, different ones in the configuration file (the command line wins)"""
    d = ctx.path("sess%d" % n)
    os.makedirs(d)
    tls = kind.startswith("tls")
    closing = kind.endswith("close")
    skind = kind
    cmdline = kind == "cmdline"
    if cmdline:
        kind = rng.choice(["valid", "mixed"])
    if tls or closing or kind in ("second", "quiet", "loglevel0"):
        kind = rng.choice(["valid", "mixed", "many"]) if kind in ("quiet", "loglevel0") else rng.choice(["valid", "mixed", "html"])
    up = socket.socket()
    up.setsockopt(socket.SOL_SOCKET, socket.SO_REUSEADDR, 1)
    up.bind(("127.0.0.1", 0))
    up.listen(2)
    up_port = up.getsockname()[1]
    pport, cport = free_port(), free_port()
    cfg = os.path.join(d, "proxy.json")
    extra = []
    conf = {"remote_host": "127.0.0.1:%d" % up_port, "proxy_host": "127.0.0.1", "proxy_port": pport,
            "control_host": "127.0.0.1", "control_port": cport, "record_messages": True,
            "message_log_directory": os.path.join(d, "msglog"),
            "tls": {"country": ["GB"], "org": ["verif"], "common_name": "localhost"}}
    if cmdline:
        # the file names other hosts and ports; the command line says where to listen and where the server is, and wins
        conf.update(remote_host="127.0.0.1:1", proxy_host="127.0.0.9", proxy_port=free_port(), control_port=free_port())
        extra = ["-r", "127.0.0.1:%d" % up_port, "-l", "127.0.0.1", "-p", str(pport), "-ca", "127.0.0.1", "-cp", str(cport)]
    with open(cfg, "w") as f:
        json.dump(conf, f)
    errf = open(os.path.join(d, "stderr"), "wb")
    outf = open(os.path.join(d, "stdout"), "wb")
    p = subprocess.Popen([binary] + (["-s"] if tls else []) + (["-q"] if skind == "quiet" else []) + ["-c", cfg] + extra, cwd=d, stdout=outf, stderr=errf)
    ev = dict(kind="cmdline" if cmdline else skind, alive=True, stalled=False, report_ok=False, report_msgs=[], slot_client=[], slot_server=[], slot_messages=[],
              dump_client=[], dump_server=[])
    c2s = client_stream(rng, kind)
    s2c = b"ICY 200 OK\r\n\r\n" + bytes(rng.getrandbits(8) for _ in range(rng.randint(0, 300))) + rng.choice(HTML) if kind != "random" else bytes(rng.getrandbits(8) for _ in range(rng.randint(1, 3000)))
    ev["c2s"], ev["s2c"] = list(c2s), list(s2c)
    s_got, c_got = bytearray(), bytearray()
    cli = None
    try:
        # connect to the proxy (it needs a moment to listen)
        for _ in range(200):
            try:
                cli = socket.create_connection(("127.0.0.1", pport), timeout=2)
                break
            except OSError:
                if p.poll() is not None:
                    break
                time.sleep(0.025)
        if cli is None:
            raise vlib.Inconclusive("cannot connect to the proxy (exit %s): %s" % (p.poll(), open(os.path.join(d, "stderr"), "rb").read()[-500:]))
        if skind == "loglevel0":
            # the operator turns the message log off through the control port before the traffic starts
            try:
                urllib.request.urlopen("http://127.0.0.1:%d/status/loglevel/0" % cport, timeout=10).read()
            except Exception as e:          # noqa
                ev["loglevel_error"] = repr(e)[:100]
        up.settimeout(10)
        try:
            srv, _ = up.accept()
        except socket.timeout:
            # the proxy never called the upstream server: nothing can be relayed (or the proxy has died trying)
            ev["stalled"] = True
            ev["alive"] = p.poll() is None
            ev["s_got"], ev["c_got"] = [], []
            raise NoUpstream()
        if tls:
            # the proxy dials the upstream server with TLS as soon as it has accepted the client, and only then
            # reads from (i.e. shakes hands with) the client: serve that handshake first, then do the client's
            sctx = ssl.SSLContext(ssl.PROTOCOL_TLS_SERVER)
            sctx.load_cert_chain(cert + ".pem", cert + ".key")
            cctx = ssl.SSLContext(ssl.PROTOCOL_TLS_CLIENT)
            cctx.check_hostname = False
            cctx.verify_mode = ssl.CERT_NONE
            if "12" in skind:
                sctx.maximum_version = ssl.TLSVersion.TLSv1_2
                cctx.maximum_version = ssl.TLSVersion.TLSv1_2
            srv.settimeout(10)
            cli.settimeout(10)
            srv = sctx.wrap_socket(srv, server_side=True)
            cli = cctx.wrap_socket(cli)
            ev["tls_versions"] = [cli.version(), srv.version()]
        srv.settimeout(0.2)
        cli.settimeout(0.2)

        def pump(sock, data, seed):
            r = random.Random(seed)
            i = 0
            if kind in ("bulk", "burst", "bigburst", "slowserver", "reportrace") and sock is cli:
                try:
                    sock.sendall(data)      # all at once: the proxy's reads fill its buffer
                except OSError:
                    pass
                return
            while i < len(data):
                k = r.randint(1, r.choice([1, 7, 100, 2048, 5000]))
                try:
                    sock.sendall(data[i:i + k])
                except OSError:
                    return
                i += k
                if r.random() < 0.2:
                    time.sleep(r.random() * 0.003)

        def drain(sock, buf, want, stop):
            if skind == "slowserver" and sock is srv:
                time.sleep(2.0)       # the server is busy: the proxy's writes to it block, nothing may be dropped meanwhile
            while not stop.is_set() and len(buf) < want:
                try:
                    b = sock.recv(65536)
                    if not b:
                        return
                    buf.extend(b)
                except (socket.timeout, ssl.SSLWantReadError):
                    continue
                except OSError:
                    return

        def send_and_close(sock, data):
            # the last bytes of the session and the end of the session arrive together
            try:
                sock.settimeout(5)
                if tls:
                    # data record and close_notify leave in one piece (TCP_CORK), so the proxy's TLS layer finds the
                    # end of the session right behind the last bytes
                    sock.setsockopt(socket.IPPROTO_TCP, socket.TCP_CORK, 1)
                    sock.sendall(data)
                    threading.Timer(0.03, lambda: sock.setsockopt(socket.IPPROTO_TCP, socket.TCP_CORK, 0)).start()
                    try:
                        sock.unwrap()
                    except (OSError, ssl.SSLError):
                        pass
                else:
                    sock.sendall(data)
                    sock.shutdown(socket.SHUT_WR)
            except OSError:
                pass

        stop = threading.Event()
        if skind == "reportrace":
            # the operator's browser reloads the status page all the time while the traffic flows
            def reload():
                while not stop.is_set():
                    try:
                        urllib.request.urlopen("http://127.0.0.1:%d/status/report" % cport, timeout=5).read()
                    except Exception:          # noqa
                        time.sleep(0.05)
            for _ in range(3):
                threading.Thread(target=reload, daemon=True).start()
        if closing:
            # first the server's greeting reaches the client, then the client says everything at once and leaves;
            # in every second such session it is the server that speaks last and leaves
            server_leaves = rng.random() < 0.5
            first, last = (c2s, s2c) if server_leaves else (s2c, c2s)
            a, b = (cli, srv) if server_leaves else (srv, cli)
            a_got, b_got = (s_got, c_got) if server_leaves else (c_got, s_got)
            t1 = threading.Thread(target=pump, args=(a, first, rng.getrandbits(30)))
            t2 = threading.Thread(target=drain, args=(b, a_got, len(first), stop))
            t1.start(); t2.start()
            deadline = time.time() + 20
            while time.time() < deadline and len(a_got) < len(first) and p.poll() is None:
                time.sleep(0.01)
            t1.join(5)
            t3 = threading.Thread(target=drain, args=(a, b_got, len(last), stop))
            t3.start()
            send_and_close(b, last)
            deadline = time.time() + 20
            while time.time() < deadline and len(b_got) < len(last) and p.poll() is None and t3.is_alive():
                time.sleep(0.01)
            time.sleep(0.3)
            ev["stalled"] = False      # the session has ended: what has not arrived by now never will
            ev["server_leaves"] = server_leaves
            stop.set()
            t2.join(5); t3.join(5)
            ts = []
        ts = [] if closing else [threading.Thread(target=pump, args=(cli, c2s, rng.getrandbits(30))),
              threading.Thread(target=pump, args=(srv, s2c, rng.getrandbits(30))),
              threading.Thread(target=drain, args=(srv, s_got, len(c2s), stop)),
              threading.Thread(target=drain, args=(cli, c_got, len(s2c), stop))]
        for t in ts:
            t.start()
        deadline = time.time() + 20
        while not closing and time.time() < deadline and (len(s_got) < len(c2s) or len(c_got) < len(s2c)) and p.poll() is None:
            time.sleep(0.01)
        if not closing:
            ev["stalled"] = (len(s_got) < len(c2s) or len(c_got) < len(s2c)) and p.poll() is None
        time.sleep(0.15)    # quiescence: let a surplus byte or the queue update show up
        stop.set()
        for t in ts:
            t.join(5)
        if skind == "second" and p.poll() is None:
            # the first client has gone; a second one connects to the same proxy process (the parser, the queue and
            # the report carry on): its traffic is relayed exactly as well
            for x in (cli, srv):
                try:
                    x.close()
                except OSError:
                    pass
            time.sleep(0.2)
            c2 = client_stream(rng, rng.choice(["valid", "mixed"]))
            s2 = b"ICY 200 OK\r\n\r\n" + bytes(rng.getrandbits(8) for _ in range(rng.randint(0, 200)))
            try:
                cli = socket.create_connection(("127.0.0.1", pport), timeout=5)
                srv, _ = up.accept()
            except OSError:
                cli = srv = None
            s_got2, c_got2 = bytearray(), bytearray()
            if cli is not None:
                srv.settimeout(0.2)
                cli.settimeout(0.2)
                stop2 = threading.Event()
                ts2 = [threading.Thread(target=pump, args=(cli, c2, rng.getrandbits(30))),
                       threading.Thread(target=pump, args=(srv, s2, rng.getrandbits(30))),
                       threading.Thread(target=drain, args=(srv, s_got2, len(c2), stop2)),
                       threading.Thread(target=drain, args=(cli, c_got2, len(s2), stop2))]
                for t in ts2:
                    t.start()
                deadline = time.time() + 20
                while time.time() < deadline and (len(s_got2) < len(c2) or len(c_got2) < len(s2)) and p.poll() is None:
                    time.sleep(0.01)
                ev["stalled"] = ev["stalled"] or ((len(s_got2) < len(c2) or len(c_got2) < len(s2)) and p.poll() is None)
                time.sleep(0.15)
                stop2.set()
                for t in ts2:
                    t.join(5)
            # the two sessions, one after the other, as one history
            c2s, s2c = c2s + c2, s2c + s2
            ev["c2s"], ev["s2c"] = list(c2s), list(s2c)
            s_got, c_got = s_got + s_got2, c_got + c_got2
        ev["alive"] = p.poll() is None
        if ev["alive"]:
            try:
                page = urllib.request.urlopen("http://127.0.0.1:%d/status/report" % cport, timeout=10).read().decode("utf-8", errors="replace")
                ev["report_ok"] = True
                parse_report(page, ev)
            except Exception as e:          # noqa
                ev["report_error"] = repr(e)[:200]
            ev["alive"] = p.poll() is None
    except NoUpstream:
        pass
    finally:
        for s in (cli, up):
            try:
                s.close()
            except Exception:
                pass
        if p.poll() is None:
            p.kill()
        p.wait()
        errf.close()
        outf.close()
    if not ev["alive"]:
        ev["crash"] = open(os.path.join(d, "stderr"), "rb").read()[-1500:].decode(errors="replace")
    ev["s_got"], ev["c_got"] = list(s_got), list(c_got)
    return ev


def cut(page, start, ends):
    i = page.find(start)
    if i < 0:
        return None
    i += len(start)
    j = -1
    for e in ends:
        j = page.rfind(e) if e.startswith("R:") is False else -1
    j = page.rfind(ends[0], i)
    return page[i:j] if j >= 0 else page[i:]


def parse_report(page, ev):
    cb = cut(page, "id='clientbuffer'>\n", ["\n</div>\n</code>\n</pre>\n<h3>Last Server Buffer</h3>"])
    sb = cut(page, "id='serverbuffer'>\n", ["\n</div>\n</code>\n<code>\n<div class=\"preformatted\" id='messages'>"])
    mb = cut(page, "id='messages'>\n", ["\n</div>\n</code>\n</pre>"])
    ev["slot_client"] = sorted({ord(c) for c in (cb or "")})
    ev["slot_server"] = sorted({ord(c) for c in (sb or "")})
    ev["slot_messages"] = sorted({ord(c) for c in (mb or "")})
    if cb is None or sb is None or mb is None:
        ev["report_ok"] = False
        ev["report_error"] = "report layout not recognised"
        return
    def dump_bytes(section):
        out = []
        for ln in section.split("\n"):
            h = re.match(r"^[0-9a-f]{8}  ((?:[0-9a-f]{2} ?| )+)", ln)
            if h:
                out.extend(int(x, 16) for x in h.group(1).split())
        return out
    ev["dump_client"], ev["dump_server"] = dump_bytes(cb), dump_bytes(sb)
    msgs = []
    cur = None
    for ln in mb.split("\n"):
        m = re.match(r"Frame length (\d+) bytes:", ln)
        if m:
            cur = []
            msgs.append(cur)
            continue
        h = re.match(r"^[0-9a-f]{8}  ((?:[0-9a-f]{2} ?| )+)", ln)
        if h and cur is not None:
            cur.extend(int(x, 16) for x in h.group(1).split())
    ev["report_msgs"] = msgs

def session_concurrent(ctx, binary, n, rng):
    """Two clients at the same time through one proxy process (ProxyMulti.tla, Concurrent = TRUE).  Returns one event per
    connection - each relay is judged exactly like a single session's - and a note about the report: all connections
    tee into the one parser, so the report may list a splice of the two streams (a hazard of the design that C19, stated
    for one session, does not cover; it is recorded, not judged)."""
    d = ctx.path("sess%d" % n)
    os.makedirs(d)
    up = socket.socket()
    up.setsockopt(socket.SOL_SOCKET, socket.SO_REUSEADDR, 1)
    up.bind(("127.0.0.1", 0))
    up.listen(4)
    pport, cport = free_port(), free_port()
    cfg = os.path.join(d, "proxy.json")
    with open(cfg, "w") as f:
        json.dump({"remote_host": "127.0.0.1:%d" % up.getsockname()[1], "proxy_host": "127.0.0.1", "proxy_port": pport,
                   "control_host": "127.0.0.1", "control_port": cport, "record_messages": True,
                   "message_log_directory": os.path.join(d, "msglog")}, f)
    errf = open(os.path.join(d, "stderr"), "wb")
    outf = open(os.path.join(d, "stdout"), "wb")
    p = subprocess.Popen([binary, "-c", cfg], cwd=d, stdout=outf, stderr=errf)
    conns = []
    note = dict(reported=0, spliced=0)
    page_ev = dict(report_ok=False, report_msgs=[], slot_client=[], slot_server=[], slot_messages=[], dump_client=[], dump_server=[])
    try:
        up.settimeout(10)
        for k in range(2):
            cli = None
            for _ in range(200):
                try:
                    cli = socket.create_connection(("127.0.0.1", pport), timeout=2)
                    break
                except OSError:
                    if p.poll() is not None:
                        break
                    time.sleep(0.025)
            if cli is None:
                raise vlib.Inconclusive("cannot connect to the proxy")
            try:
                srv, _ = up.accept()     # the proxy dials upstream as it accepts: the k-th upstream connection belongs to the k-th client
            except socket.timeout:
                # the proxy does not serve a second client while the first is connected: outside C19 (one session), noted
                note["second_client_not_served"] = True
                cli.close()
                break
            cli.settimeout(0.2)
            srv.settimeout(0.2)
            conns.append(dict(cli=cli, srv=srv, c2s=client_stream(rng, "many") + client_stream(rng, "many"), s2c=b"ICY 200 OK\r\n\r\n" + bytes(rng.getrandbits(8) for _ in range(rng.randint(0, 200))),
                              s_got=bytearray(), c_got=bytearray()))
        stop = threading.Event()

        def pump(sock, data, seed):
            r = random.Random(seed)
            i = 0
            while i < len(data):
                k = r.randint(1, r.choice([1, 7, 60, 300]))
                try:
                    sock.sendall(data[i:i + k])
                except OSError:
                    return
                i += k
                if r.random() < 0.3:
                    time.sleep(r.random() * 0.002)

        def drain(sock, buf, want):
            while not stop.is_set() and len(buf) < want:
                try:
                    b = sock.recv(65536)
                    if not b:
                        return
                    buf.extend(b)
                except socket.timeout:
                    continue
                except OSError:
                    return
        ts = []
        for c in conns:
            ts += [threading.Thread(target=pump, args=(c["cli"], c["c2s"], rng.getrandbits(30))),
                   threading.Thread(target=pump, args=(c["srv"], c["s2c"], rng.getrandbits(30))),
                   threading.Thread(target=drain, args=(c["srv"], c["s_got"], len(c["c2s"]))),
                   threading.Thread(target=drain, args=(c["cli"], c["c_got"], len(c["s2c"])))]
        for t in ts:
            t.start()
        deadline = time.time() + 20
        done = lambda: all(len(c["s_got"]) >= len(c["c2s"]) and len(c["c_got"]) >= len(c["s2c"]) for c in conns)   # noqa
        mid = None
        while time.time() < deadline and not done() and p.poll() is None:
            if mid is None and all(len(c["s_got"]) * 5 >= len(c["c2s"]) * 2 for c in conns):
                # a look at the report while both clients are in full flow
                mid = dict(report_msgs=[])
                try:
                    parse_report(urllib.request.urlopen("http://127.0.0.1:%d/status/report" % cport, timeout=10).read().decode("utf-8", errors="replace"), mid)
                except Exception:          # noqa
                    pass
                for m in mid.get("report_msgs", []):
                    note["reported"] += 1
                    if not any(bytes(m) in bytes(c["c2s"]) for c in conns):
                        note["spliced"] += 1
            time.sleep(0.01)
        stalled = not done() and p.poll() is None
        time.sleep(0.15)
        stop.set()
        for t in ts:
            t.join(5)
        alive = p.poll() is None
        if alive:
            try:
                page = urllib.request.urlopen("http://127.0.0.1:%d/status/report" % cport, timeout=10).read().decode("utf-8", errors="replace")
                page_ev["report_ok"] = True
                parse_report(page, page_ev)
            except Exception as e:          # noqa
                page_ev["report_error"] = repr(e)[:200]
            alive = p.poll() is None
    finally:
        for c in conns:
            for x in (c["cli"], c["srv"]):
                try:
                    x.close()
                except Exception:
                    pass
        up.close()
        if p.poll() is None:
            p.kill()
        p.wait()
        errf.close()
        outf.close()
    streams = [bytes(c["c2s"]) for c in conns]
    for m in page_ev["report_msgs"]:
        note["reported"] += 1
        if not any(bytes(m) in st for st in streams):
            note["spliced"] += 1
    evs = []
    for c in conns:
        ev = dict(kind="concurrent", alive=alive, stalled=stalled, report_ok=page_ev["report_ok"], report_msgs=[], dump_client=[], dump_server=[],
                  slot_client=page_ev["slot_client"], slot_server=page_ev["slot_server"], slot_messages=page_ev["slot_messages"],
                  c2s=list(c["c2s"]), s2c=list(c["s2c"]), s_got=list(c["s_got"]), c_got=list(c["c_got"]), multi=True)
        if not alive:
            ev["crash"] = open(os.path.join(d, "stderr"), "rb").read()[-1500:].decode(errors="replace")
        evs.append(ev)
    return evs, note


def run(ctx, replay):
    for cfg in ("Proxy_FALSE.cfg",):
        ctx.tlc_mc("Proxy", cfg, timeout=600)
    r = ctx.tlc_mc("Proxy", "Proxy_TRUE.cfg", timeout=600, must_hold=False)
    if r["ok"]:
        raise vlib.Inconclusive("Proxy.tla with a crashing parser should violate StaysAlive (vacuity guard)")
    # several connections sharing the one parser: sequential connections behave like one session; overlapping ones keep
    # every relay exact (and complete) but let the report show a splice - the model says so, the sessions below show it
    ctx.tlc_mc("ProxyMulti", "ProxyMulti_seq.cfg", timeout=600)
    ctx.tlc_mc("ProxyMulti", "ProxyMulti_conc_relay.cfg", timeout=600)
    for cfg in ("ProxyMulti_conc.cfg", "ProxyMulti_seq_straddle.cfg"):
        r = ctx.tlc_mc("ProxyMulti", cfg, timeout=600, must_hold=False)
        if r["ok"] or r["violated"] != "ReportContiguous":
            raise vlib.Inconclusive("%s should violate ReportContiguous and nothing else (got %s)" % (cfg, r["violated"]))
    binary = build_binary(ctx, "proxy")
    rng = random.Random(ctx.seed * 104729 + 19)
    kinds = ["valid", "malformed", "html", "random", "mixed", "many", "bulk", "burst", "bigburst", "bulk", "mixed", "html", "burst",
             "close", "tls12close", "tls13", "tls12close", "close", "second", "quiet", "loglevel0", "slowserver", "reportrace", "cmdline"]
    nsess = 120 if ctx.thorough() else 24
    cert = ctx.path("upstream")
    ctx.drive(ctx.build_harness(), ["gencert", cert])
    events = []
    for n in range(nsess):
        events.append(session(ctx, binary, n, rng, kinds[n % len(kinds)], cert))
    multi = dict(sessions=0, reported=0, spliced=0)
    for k in range(4 if ctx.thorough() else 1):
        evs, note = session_concurrent(ctx, binary, 500 + k, rng)
        events += evs
        multi["sessions"] += 1
        multi["reported"] += note["reported"]
        multi["spliced"] += note["spliced"]
        if note.get("second_client_not_served"):
            multi["second_client_not_served"] = True
    ctx.extra["concurrent_clients"] = multi
    if multi.get("second_client_not_served"):
        vlib.log("NOTE C19: a second client is not served while the first is connected (outside C19, which is stated for one session)")
    if multi["spliced"]:
        vlib.log("NOTE C19: with two clients at once %d of %d messages in the report are a splice of the two streams "
                 "(ProxyMulti.tla: ReportContiguous fails when connections overlap; outside C19, which is stated for one session)" % (multi["spliced"], multi["reported"]))
    trace = ctx.path("c19.ndjson")
    vlib.write_ndjson(trace, [{k: v for k, v in e.items() if k not in ("crash", "report_error", "kind")} for e in events])
    res = ctx.tlc_trace("C19_Trace", "C19_Trace.cfg", trace, timeout=1500)
    ctx.traces += len(events)
    for e in events:
        ctx.count_case((e["kind"], e["c2s"], e["s2c"]), nontrivial=len(e["c2s"]) > 0)
    ctx.extra["sessions_by_kind"] = {k: sum(1 for e in events if e["kind"] == k) for k in set(kinds) | {"concurrent"}}
    ctx.extra["bytes_relayed"] = sum(len(e["c2s"]) + len(e["s2c"]) for e in events)
    ctx.extra["messages_listed_in_reports"] = sum(len(e["report_msgs"]) for e in events)
    drift = res["badk"].get("drift", [])
    ctx.extra["model_drift"] = "report differs from the last 20 at quiescence in sessions %s" % drift if drift else None
    s = {k: (v[:30] + ["...(%d)" % len(v)] if isinstance(v, list) and len(v) > 30 else v) for k, v in events[0].items()}
    ctx.sample(s)
    for i in res["bad"]:
        e = events[i - 1]
        if not e["alive"]:
            kind = "process-died"
        elif e["stalled"] or e["s_got"] != e["c2s"] or e["c_got"] != e["s2c"]:
            kind = "relay-altered-or-stalled"
        elif not e["report_ok"]:
            kind = "report-unavailable"
        elif any(c in (60, 62) for c in e["slot_messages"]):
            kind = "unescaped-markup-in-message-list"
        elif any(c in (60, 62) for c in e["slot_client"] + e["slot_server"]):
            kind = "unescaped-markup-in-buffer-dump"
        else:
            kind = "report-lists-unrelayed-message"
        ctx.violation(dict(kind=kind, stream=e["kind"]), dict(event={k: (v if not isinstance(v, list) or len(v) < 400 else v[:400]) for k, v in e.items()}))
    return ctx.finish(
        level="model_checking",
        rule="one case = one TCP loopback session through the built proxy binary (own process, generated config, harness-owned upstream server and client): client and "
             "server streams with seeded chunkings (1 byte .. 5000 bytes) in both directions at once; client streams of valid frames, CRC-valid frames with malformed content "
             "(short MSM, all-ones / all-zero payloads), random bytes, payloads and junk spelling <script>, </pre>, <, >, more than 20 messages, a partial frame at the end; "
             "/status/report fetched at quiescence; sessions that end (a peer sends its last bytes and leaves; TCP, TLS 1.2 with data and close_notify in one segment, TLS 1.3), a second client after the first, the message log off (-q, /status/loglevel/0), and two clients at once (each relay judged, the shared report only for HTML safety); non-trivial = non-empty client stream",
        assumptions=["the three traffic-derived slots are cut out of the page with the literal text of the report template",
                     "listed messages are read back from the hex dumps; expected messages from FramerCore (real CRC) on the client stream without end of input",
                     "process death or a relay stalled for 20 s is the 'stops the relayed stream' violation"],
        exhaustive=False)
