"""C12 - a frame corrupted in payload or CRC is discarded alone; its neighbours survive."""
import framer_common


def run(ctx, replay):
    return framer_common.run_family(
        ctx, replay, key="c12", mode="c12", n_quick=8, n_thorough=11,
        rule="one case = a well-structured stream (as C03) in which one victim frame's payload/CRC is corrupted: single bit (every bit of "
             "short frames), bursts, byte overwritten with 0xD3 (also first payload byte and CRC bytes), zero/one runs, each CRC byte alone; "
             "the spec (Classify with allowCorrupt) requires the victim as one non-RTCM message with exactly its bytes and every other segment "
             "unchanged; corruptions after which the CRC still matches are decided by the spec, not the generator; non-trivial = non-empty stream",
        assumptions=["the leader of the victim is left untouched, as the property states"])
