"""Shared part of the framer-family checks C01, C02, C03, C12 (DESIGN.md section 6)."""
import json
import vlib

MC_NOTE = ("FramerCore (L1, one transition per GetNextByte call site) checked exhaustively against C01/C02/C03/C12 "
           "for every stream over the toy alphabet up to N bytes and every end-of-input position")


def split_cases(events):
    """-> list of (start_index_1based, end_index_1based, reset_event_or_None)"""
    cases = []
    cur = None
    for i, e in enumerate(events, 1):
        if e["ev"] == "reset":
            if cur:
                cases.append(cur)
            cur = [i, i, e]
        elif e["ev"] == "getmessage":
            if cur:
                cases.append(cur)
                cur = None
            cases.append([i, i, e])
        elif cur:
            cur[1] = i
    if cur:
        cases.append(cur)
    return cases


def run_family(ctx, replay, key, mode, n_quick, n_thorough, rule, assumptions):
    # 1. design level: exhaustive model check of the framer against the four property specs
    n = n_thorough if ctx.thorough() else n_quick
    cfg = ctx.path("Framer_MC_N.cfg")
    with open(vlib.SPEC + "/Framer_MC.cfg") as f:
        body = f.read().replace("CONSTANT N = 8", "CONSTANT N = %d" % n)
    d_cfg = "Framer_MC_N%d.cfg" % n
    mc = None
    if not replay:
        # write the cfg next to the symlinked specs of the TLC run directory
        ctx_cfg_text = body
        orig = ctx._tlc_dir

        def patched():
            d = orig()
            with open(d + "/" + d_cfg, "w") as f:
                f.write(ctx_cfg_text)
            return d
        ctx._tlc_dir = patched
        mc = ctx.tlc_mc("Framer_MC", d_cfg, timeout=1700, coverage=False, extra=["-maxSetSize", "50000000"])
        ctx._tlc_dir = orig
        ctx.extra["model_bound"] = "all streams over {0,1,2,3} of length <= %d (%d distinct states)" % (n, mc["distinct"])

    # 2. conformance: traces of the real code
    drv = ctx.build_harness()
    trace = ctx.path(mode + ".ndjson")
    if replay:
        with open(replay) as f:
            vlib.write_ndjson(trace, json.load(f)["replay"]["events"])
    else:
        ctx.drive(drv, ["framer", mode, trace])
    events = vlib.read_ndjson(trace)
    if not events:
        raise vlib.Inconclusive("driver produced no events")
    res = ctx.tlc_trace("Framer_Trace", "Framer_Trace.cfg", trace, timeout=1700)
    cases = split_cases(events)
    ctx.traces += len(cases)
    classes = {}
    for (a, b, e0) in cases:
        data = e0.get("in", e0.get("buf"))
        nontrivial = len(data) > 0
        ctx.count_case((e0["ev"], data, e0.get("in_cap"), e0.get("out_cap")), nontrivial)
        c = e0["cls"].split(" ")[0].rstrip("0123456789/")
        classes[c] = classes.get(c, 0) + 1
    ctx.extra["case_classes"] = classes
    ctx.extra["bytes_fed"] = sum(len(c[2].get("in", c[2].get("buf"))) for c in cases)
    ctx.extra["typed_messages_delivered"] = sum(1 for e in events if e["ev"] == "msg" and e["type"] >= 0)
    for c in cases[:2] + cases[len(cases) // 2:len(cases) // 2 + 1]:
        ctx.sample([_short(e) for e in events[c[0] - 1:c[1]]][:8])
    bad = res["badk"].get(key, [])
    seen_cases = set()
    for i in bad:
        case = next((c for c in cases if c[0] <= i <= c[1]), None)
        if case is None or case[0] in seen_cases:
            continue
        seen_cases.add(case[0])
        evs = events[case[0] - 1:case[1]]
        e = events[i - 1]
        rec = classify(key, e, evs)
        ctx.violation(rec, dict(events=evs, rejected_event_index=i - case[0] + 1))
    if not replay and key in ("c02", "c03"):
        # the push-back channel under the framer: PushBack.tla checked exhaustively, and the real type driven through seeded
        # send / close / push / get sequences whose every result the model must explain (a conformance note, not a verdict:
        # the listed properties are judged on the framer's output above)
        ctx.tlc_mc("PushBack", "PushBack.cfg", timeout=300)
        ptrace = ctx.path("pushback.ndjson")
        ctx.drive(drv, ["pushback", ptrace])
        pres = ctx.tlc_trace("PushBack_Trace", "PushBack_Trace.cfg", ptrace, timeout=600)
        pev = vlib.read_ndjson(ptrace)
        ctx.extra["pushback_conformance"] = dict(events=len(pev), unexplained=len(pres["bad"]),
                                                 first=pev[pres["bad"][0] - 1] if pres["bad"] else None)
        if pres["bad"]:
            vlib.log("NOTE model-drift %s: rtcm/pushback left the PushBack model at %d events, first %s (not a verdict)"
                     % (ctx.pid, len(pres["bad"]), pev[pres["bad"][0] - 1]))
    drift = res["badk"].get("drift", [])
    if drift:
        ctx.extra["model_drift"] = dict(events=len(drift), first=_short(events[drift[0] - 1]))
        vlib.log("NOTE model-drift %s: the code left the L1 FramerCore model at %d events (not a verdict)" % (ctx.pid, len(drift)))
    else:
        ctx.extra["model_drift"] = None
    return ctx.finish(level="model_checking", rule=rule, assumptions=assumptions + [MC_NOTE], exhaustive=False)


def _short(e):
    r = dict(e)
    for k in ("in", "raw", "buf"):
        if k in r and isinstance(r[k], list) and len(r[k]) > 48:
            r[k] = r[k][:48] + ["...(%d bytes)" % len(e[k])]
    return r


def classify(key, e, evs):
    """Canonical description of a rejected case, used to match known findings."""
    end = next((x for x in evs if x["ev"] == "end"), None)
    rec = dict(prop=key, event=e["ev"])
    if e["ev"] == "getmessage":
        rec["api"] = "GetMessage"
        rec["cls"] = e["cls"].split(" crcbyte")[0]
        rec["panic"] = bool(e["panic"])
        return rec
    rec["api"] = "HandleMessages"
    if end and end["panic"]:
        rec["kind"] = "panic"
        rec["panic_kind"] = "index out of range" if "index out of range" in end["panic"] else end["panic"][:40]
    elif end and end["timeout"]:
        rec["kind"] = "hang-or-no-close"
    elif end and end["closes"] != 1:
        rec["kind"] = "closes=%d" % end["closes"]
    else:
        rec["kind"] = "wrong-output"
    return rec
