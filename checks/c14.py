"""C14 - bit-field extraction returns exactly the addressed bits (DESIGN.md 6/C14)."""
import json
import vlib


def run(ctx, replay):
    drv = ctx.build_harness()
    trace = ctx.path("c14.ndjson")
    if replay:
        with open(replay) as f:
            vlib.write_ndjson(trace, [json.load(f)["replay"]["event"]])
    else:
        ctx.drive(drv, ["c14", trace])
    events = vlib.read_ndjson(trace)
    if not events:
        raise vlib.Inconclusive("driver produced no events")
    res = ctx.tlc_trace("C14_Trace", "C14_Trace.cfg", trace)
    ctx.traces += 1
    classes = {}
    for e in events:
        ctx.count_case((e["buf"], e["pos"], e["len"]), nontrivial=True)
        classes[e["cls"]] = classes.get(e["cls"], 0) + 1
    ctx.extra["classes"] = classes
    ctx.extra["widths_covered"] = sorted({e["len"] for e in events})
    ctx.extra["alignments_covered"] = sorted({e["pos"] % 8 for e in events})
    for e in events[:2] + events[len(events) // 2:len(events) // 2 + 2] + events[-2:]:
        ctx.sample(e)
    for i in res["bad"]:
        e = events[i - 1]
        rec = dict(kind="panic" if e["panic"] else "wrong-value", len=e["len"], align=e["pos"] % 8, cls=e["cls"])
        ctx.violation(rec, dict(event=e))
    # the same cases in a 32-bit build of the library (int and uint are 32 bits wide there)
    # and as a static binary in an empty root directory (no time zone database, no environment)
    variants = [] if replay else [("GOARCH=386", ctx.trace_32bit(["c14"], trace)), ("static binary in an empty root directory", ctx.trace_bare(["c14"], trace))]
    for build, tv in variants:
        if not tv:
            continue
        evv = vlib.read_ndjson(tv)
        resv = ctx.tlc_trace("C14_Trace", "C14_Trace.cfg", tv)
        ctx.traces += 1
        for i in resv["bad"]:
            e = evv[i - 1]
            ctx.violation(dict(kind="other-build-or-environment", len=e["len"], align=e["pos"] % 8, cls=e["cls"]), dict(event=e, build=build))
    return ctx.finish(
        level="model_checking",
        rule="one case = (buffer, bit position, width); structured enumeration over alignment x width x "
             "{zeros, ones, min, max, alternating, single-1, single-0} x context bits {0,1} with the buffer exactly as long "
             "as the field needs, plus seeded random buffers; distinct = distinct (buf,pos,len); every case is non-trivial",
        assumptions=["TLC evaluates the 5-line definition Bits!FieldBits / SignExtend64 correctly",
                     "Go results reach TLC unchanged through JSON limbs (20/22/22 bits)"],
        exhaustive=False)
