module verifharness

go 1.23

require (
	github.com/goblimey/go-ntrip v0.0.0
	pgregory.net/rapid v1.3.0
)

require (
	github.com/goblimey/go-crc24q v0.0.0-20210107174841-6ea518daa3aa // indirect
	github.com/goblimey/go-tools v0.0.11 // indirect
)

replace github.com/goblimey/go-ntrip => /repo
