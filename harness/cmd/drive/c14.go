package main

import (
	"sync"
	"math/rand"

	"github.com/goblimey/go-ntrip/rtcm/utils"
	"verifharness/internal/tr"
)

// C14: bit-field extraction.  Structured part (exhaustive over alignment x
// width x pattern family x context) plus seeded random part.
func init() { commands["c14"] = c14 }

type c14Event struct {
	Buf   []int  `json:"buf"`
	Pos   int    `json:"pos"`
	Len   int    `json:"len"`
	U     [3]int `json:"u"`
	S     [3]int `json:"s"`
	Panic string `json:"panic"`
	Cls   string `json:"cls"`
	// Intact: the call left the caller's memory alone - the buffer itself and the bytes that follow it in
	// the same backing array (extraction reads; it must never write)
	Intact bool `json:"intact"`
}

func c14Call(w *tr.Writer, buf []byte, pos, n int, cls string) {
	// the buffer is handed over as a slice of a larger array: what lies behind it belongs to the caller too
	backing := make([]byte, len(buf)+16)
	copy(backing, buf)
	for i := len(buf); i < len(backing); i++ {
		backing[i] = 0xa5
	}
	c14CallOn(w, backing, len(buf), pos, n, cls)
}

var c14Calls = 0

func c14CallOn(w *tr.Writer, backing []byte, blen, pos, n int, cls string) {
	// history: now and then some other caller asks for a field that does not fit its buffer (a truncated message).
	// Whatever that call does - panic, error, zero - the calls after it are answered from their own buffers alone.
	c14Calls++
	if c14Calls%97 == 3 {
		tr.Recover(func() { utils.GetBitsAsUint64([]byte{0xff, 0x00}, 12, 8) })
		tr.Recover(func() { utils.GetBitsAsInt64([]byte{0xff}, 4, 30) })
		tr.Recover(func() { utils.GetBitsAsUint64(nil, 0, 1) })
	}
	buf := backing[:blen]
	before := append([]byte{}, backing...)
	ev := c14Event{Buf: tr.Ints(buf), Pos: pos, Len: n, Cls: cls}
	ev.Panic = tr.Recover(func() {
		ev.U = tr.Limbs(utils.GetBitsAsUint64(buf, uint(pos), uint(n)))
		if n >= 2 {
			ev.S = tr.Limbs(uint64(utils.GetBitsAsInt64(buf, uint(pos), uint(n))))
		}
	})
	ev.Intact = string(before) == string(backing)
	w.Emit(ev)
}

// mkbuf builds the shortest buffer holding bits [pos,pos+n) with the given
// field bits (MSB first in field) and every other bit set to ctx.
func mkbuf(pos, n int, field func(k int) int, ctx int) []byte {
	nbytes := (pos + n + 7) / 8
	buf := make([]byte, nbytes)
	for i := 0; i < nbytes*8; i++ {
		b := ctx
		if i >= pos && i < pos+n {
			b = field(i - pos)
		}
		if b == 1 {
			buf[i/8] |= 1 << uint(7-i%8)
		}
	}
	return buf
}

func c14(args []string) {
	w := tr.NewWriter(args[0])
	defer w.Close()
	thorough := tr.Thorough()
	rng := tr.Rand(14)
	aligns := []int{0, 1, 2, 3, 4, 5, 6, 7}
	for _, a := range aligns {
		for n := 1; n <= 64; n++ {
			for _, base := range []int{0, 64} { // also at a large offset (8 bytes in)
				pos := a + base
				if base != 0 && !thorough && n%5 != 0 {
					continue
				}
				for ctx := 0; ctx <= 1; ctx++ {
					c14Call(w, mkbuf(pos, n, func(int) int { return 0 }, ctx), pos, n, "zeros")
					c14Call(w, mkbuf(pos, n, func(int) int { return 1 }, ctx), pos, n, "ones")
					c14Call(w, mkbuf(pos, n, func(k int) int { if k == 0 { return 1 }; return 0 }, ctx), pos, n, "min")
					c14Call(w, mkbuf(pos, n, func(k int) int { if k == 0 { return 0 }; return 1 }, ctx), pos, n, "max")
					c14Call(w, mkbuf(pos, n, func(k int) int { return k % 2 }, ctx), pos, n, "alt")
					if thorough || ctx == n%2 {
						for j := 0; j < n; j++ {
							if !thorough && n > 12 && j != 0 && j != 1 && j != n-1 && j != n-2 && j != (n*7+int(tr.Seed()))%n {
								continue
							}
							jj := j
							c14Call(w, mkbuf(pos, n, func(k int) int { if k == jj { return 1 }; return 0 }, ctx), pos, n, "single1")
							c14Call(w, mkbuf(pos, n, func(k int) int { if k == jj { return 0 }; return 1 }, ctx), pos, n, "single0")
						}
					}
				}
			}
		}
	}
	// seeded random: random buffers, positions up to large offsets, all widths
	nr := 6000
	if thorough {
		nr = 40000
	}
	for i := 0; i < nr; i++ {
		n := 1 + rng.Intn(64)
		pos := rng.Intn(200)
		nbytes := (pos + n + 7) / 8
		if rng.Intn(3) == 0 {
			nbytes += rng.Intn(4)
		}
		buf := make([]byte, nbytes)
		rand.New(rand.NewSource(rng.Int63())).Read(buf)
		c14Call(w, buf, pos, n, "random")
	}
	// long buffers: fields near the end of buffers longer than any RTCM frame (1029 bytes), around bit 8232 = 1029*8,
	// and beyond bit 2^16 and 2^19
	for _, nbytes := range []int{1100, 1500, 9000, 70000} {
		big := make([]byte, nbytes)
		rng.Read(big)
		for k := 0; k < nr/100; k++ {
			n := 1 + rng.Intn(64)
			var pos int
			switch k % 4 {
			case 0:
				pos = nbytes*8 - n - rng.Intn(16)
			case 1:
				pos = 8232 - 70 + rng.Intn(140)
			case 2:
				pos = rng.Intn(nbytes*8 - n)
			default:
				pos = 65536 - 70 + rng.Intn(140)
			}
			if pos < 0 || pos+n > nbytes*8 {
				pos = nbytes*8 - n
			}
			// the event carries only the bytes around the field (the specification addresses bits relative to them)
			lo := pos / 8
			if lo > 2 {
				lo -= 2
			}
			hi := (pos+n+7)/8 + 2
			if hi > nbytes {
				hi = nbytes
			}
			ev := c14Event{Buf: tr.Ints(big[lo:hi]), Pos: pos - lo*8, Len: n, Cls: "long buffer", Intact: true}
			before := append([]byte{}, big[lo:hi]...)
			ev.Panic = tr.Recover(func() {
				ev.U = tr.Limbs(utils.GetBitsAsUint64(big, uint(pos), uint(n)))
				if n >= 2 {
					ev.S = tr.Limbs(uint64(utils.GetBitsAsInt64(big, uint(pos), uint(n))))
				}
			})
			ev.Intact = string(before) == string(big[lo:hi])
			w.Emit(ev)
		}
	}
	// eight callers at once, each with its own buffers (extraction is a function of its arguments, whoever else is calling)
	{
		const G = 8
		evs := make([][]c14Event, G)
		var wg sync.WaitGroup
		for g := 0; g < G; g++ {
			wg.Add(1)
			go func(g int) {
				defer wg.Done()
				lr := rand.New(rand.NewSource(tr.Seed()*977 + int64(g)))
				for k := 0; k < nr/16; k++ {
					n := 1 + lr.Intn(64)
					pos := lr.Intn(100)
					buf := make([]byte, (pos+n+7)/8+lr.Intn(3))
					lr.Read(buf)
					ev := c14Event{Buf: tr.Ints(buf), Pos: pos, Len: n, Cls: "concurrent callers", Intact: true}
					ev.Panic = tr.Recover(func() {
						ev.U = tr.Limbs(utils.GetBitsAsUint64(buf, uint(pos), uint(n)))
						if n >= 2 {
							ev.S = tr.Limbs(uint64(utils.GetBitsAsInt64(buf, uint(pos), uint(n))))
						}
					})
					evs[g] = append(evs[g], ev)
				}
			}(g)
		}
		wg.Wait()
		for g := range evs {
			for _, ev := range evs[g] {
				w.Emit(ev)
			}
		}
	}
	// history: ONE buffer, refilled in place between calls (a read buffer that is reused): every extraction sees
	// the bytes that are in the buffer now, wherever the previous extraction looked
	shared := make([]byte, 40+16)
	for i := 40; i < len(shared); i++ {
		shared[i] = 0xa5
	}
	for i := 0; i < nr/4; i++ {
		switch rng.Intn(3) {
		case 0: // all new
			rng.Read(shared[:40])
		case 1: // a few bits
			for k := 0; k < 1+rng.Intn(3); k++ {
				shared[rng.Intn(40)] ^= byte(1 << uint(rng.Intn(8)))
			}
		default: // complement
			for k := 0; k < 40; k++ {
				shared[k] ^= 0xff
			}
		}
		n := 1 + rng.Intn(64)
		pos := rng.Intn(40*8 - n)
		if i%2 == 1 {
			pos = rng.Intn(24) // the same few bytes again and again
		}
		c14CallOn(w, shared, 40, pos, n, "reused buffer")
	}
}
