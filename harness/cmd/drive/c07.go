package main

import (
	"bufio"
	"encoding/json"
	"log/slog"
	"math/rand"
	"os"
	"sync/atomic"
	"time"

	"github.com/goblimey/go-ntrip/rtcm/handler"
	"github.com/goblimey/go-ntrip/rtcm/type1005"
	"github.com/goblimey/go-ntrip/rtcm/type1006"
	msm4 "github.com/goblimey/go-ntrip/rtcm/type_msm4/message"
	msm7 "github.com/goblimey/go-ntrip/rtcm/type_msm7/message"
	"verifharness/internal/gen"
	"verifharness/internal/tr"
)

// C07: no input can crash or hang framing, decoding or display.
// The case space comes from TLC (C07_Cases.tla): guard thresholds per mask shape.
func init() { commands["c07"] = c07 }

type c07Class struct {
	Fam  string `json:"fam"`
	NSat int    `json:"nsat"`
	NSig int    `json:"nsig"`
	Lens []int  `json:"lens"`
}

type c07Event struct {
	Fam     string `json:"fam"`
	Type    int    `json:"type"`
	NSat    int    `json:"nsat"`
	NSig    int    `json:"nsig"`
	Len     int    `json:"len"`
	Fill    string `json:"fill"`
	Flag    int    `json:"flag"`
	TsKind  string `json:"ts"`
	Stage   string `json:"stage"`
	Panic   string `json:"panic"`
	Timeout bool   `json:"timeout"`
	Acc     bool   `json:"accepted"`
	Acc4    bool   `json:"acc4"`
	Acc7    bool   `json:"acc7"`
	NCell   int    `json:"ncell"`
	Frame   []int  `json:"frame,omitempty"`
}

var msm4Types = []int{1074, 1084, 1094, 1104, 1114, 1124, 1134}
var msm7Types = []int{1077, 1087, 1097, 1107, 1117, 1127, 1137}

// buildMSM builds a CRC-valid frame with payload length L for the given mask shape.
func buildMSM(rng *rand.Rand, typ, nsat, nsig, L int, fill string, flag int, tsKind string, cellFill int) ([]byte, int) {
	var w tr.BitWriter
	w.Put(uint64(typ), 12)
	w.Put(uint64(rng.Intn(4096)), 12)
	var ts uint64
	switch tsKind {
	case "legal":
		ts = uint64(rng.Intn(6))<<27 | uint64(rng.Intn(86400000))
	case "max":
		ts = 1<<30 - 1
	case "weekover":
		ts = 604800000 + uint64(rng.Intn(1000))
	case "gloday7":
		ts = 7<<27 | uint64(rng.Intn(86400000))
	case "gloms":
		ts = 2<<27 | uint64(86400000+rng.Intn(1000))
	}
	w.Put(ts, 30)
	w.Put(uint64(flag), 1)
	w.Put(uint64(rng.Intn(8)), 3)
	w.Put(uint64(rng.Intn(128)), 7)
	w.Put(uint64(rng.Intn(4)), 2)
	w.Put(uint64(rng.Intn(4)), 2)
	w.Put(uint64(rng.Intn(2)), 1)
	w.Put(uint64(rng.Intn(8)), 3)
	sat := rng.Perm(64)[:nsat]
	var sm uint64
	for _, s := range sat {
		sm |= 1 << uint(63-s)
	}
	w.Put(sm, 64)
	sig := rng.Perm(32)[:nsig]
	var gm uint64
	for _, s := range sig {
		gm |= 1 << uint(31-s)
	}
	w.Put(gm, 32)
	ncell := 0
	x := nsat * nsig
	for i := 0; i < x && i < 4096; i++ {
		b := 0
		switch cellFill {
		case 1:
			b = 1
		case 2:
			b = rng.Intn(2)
		}
		ncell += b
		w.Put(uint64(b), 1)
	}
	for w.NBit < L*8 {
		switch fill {
		case "zeros":
			w.Put(0, 1)
		case "ones":
			w.Put(1, 1)
		default:
			w.Put(uint64(rng.Intn(2)), 1)
		}
	}
	p := w.Buf
	if len(p) > L {
		p = p[:L]
	}
	return tr.Frame(p), ncell
}

// exercise runs every stage on one frame; stage is updated before each call so a
// panic or a hang can be attributed.
func exercise(frame []byte, stage *atomic.Value) (accepted, acc4, acc7 bool) {
	start := time.Date(2023, 5, 10, 12, 0, 0, 0, time.UTC)
	for _, lv := range []slog.Level{slog.LevelDebug, slog.LevelInfo} {
		stage.Store("GetMessage")
		h := handler.New(start, lv)
		m, _ := h.GetMessage(frame)
		if m != nil {
			stage.Store("Analyse")
			handler.Analyse(m)
			accepted = m.Readable != nil && m.ErrorMessage == ""
			stage.Store("String")
			m.Readable = nil
			_ = m.String()
			_ = m.String()
			c := m.Copy()
			_ = c.String()
		}
		stage.Store("msm4.GetMessage")
		if d, err := msm4.GetMessage(frame, lv); err == nil {
			acc4 = true
			stage.Store("msm4.String")
			_ = d.String()
		}
		stage.Store("msm7.GetMessage")
		if d, err := msm7.GetMessage(frame, lv); err == nil {
			acc7 = true
			stage.Store("msm7.String")
			_ = d.String()
		}
		stage.Store("type1005.GetMessage")
		if d, err := type1005.GetMessage(frame, lv); err == nil {
			_ = d.String()
		}
		stage.Store("type1006.GetMessage")
		if d, err := type1006.GetMessage(frame, lv); err == nil {
			_ = d.String()
		}
	}
	return
}

type c07Case struct {
	ev    c07Event
	frame []byte
}

// runGuarded runs the cases in a worker goroutine under a watchdog: a case that
// does not finish within 10 s is recorded as a timeout and a fresh worker continues.
func runGuarded(w *tr.Writer, cases []c07Case) {
	i := 0
	for i < len(cases) {
		var progress int64 = int64(i)
		var stage atomic.Value
		stage.Store("")
		done := make(chan struct{})
		results := make(chan c07Event, 1024)
		go func(from int) {
			defer close(done)
			for k := from; k < len(cases); k++ {
				c := cases[k]
				ev := c.ev
				ev.Panic = tr.Recover(func() { ev.Acc, ev.Acc4, ev.Acc7 = exercise(c.frame, &stage) })
				if ev.Panic != "" {
					ev.Stage = stage.Load().(string)
					ev.Frame = tr.Ints(c.frame)
				}
				results <- ev
				atomic.StoreInt64(&progress, int64(k+1))
			}
		}(i)
		last := int64(i)
		lastChange := time.Now()
	watch:
		for {
			select {
			case ev := <-results:
				w.Emit(ev)
			case <-done:
				for {
					select {
					case ev := <-results:
						w.Emit(ev)
						continue
					default:
					}
					break
				}
				i = len(cases)
				break watch
			case <-time.After(200 * time.Millisecond):
				p := atomic.LoadInt64(&progress)
				if p != last {
					last, lastChange = p, time.Now()
				} else if time.Since(lastChange) > 10*time.Second {
					// drain finished results, then record the hang
					for {
						select {
						case ev := <-results:
							w.Emit(ev)
							continue
						default:
						}
						break
					}
					ev := cases[p].ev
					ev.Timeout = true
					ev.Stage = stage.Load().(string)
					ev.Frame = tr.Ints(cases[p].frame)
					w.Emit(ev)
					i = int(p) + 1
					break watch
				}
			}
		}
	}
}

func c07(args []string) {
	casesPath, out := args[0], args[1]
	w := tr.NewWriter(out)
	defer w.Close()
	thorough := tr.Thorough()
	rng := tr.Rand(7)
	var cases []c07Case

	f, err := os.Open(casesPath)
	if err != nil {
		panic(err)
	}
	sc := bufio.NewScanner(f)
	sc.Buffer(make([]byte, 1<<20), 1<<20)
	n := 0
	for sc.Scan() {
		var c c07Class
		if json.Unmarshal(sc.Bytes(), &c) != nil {
			continue
		}
		n++
		types := msm4Types
		if c.Fam == "msm7" {
			types = msm7Types
		}
		for li, L := range c.Lens {
			fills := []string{"zeros", "ones", "random"}
			if !thorough {
				fills = []string{fills[(li+n)%3], "random"}
				if c.NSat*c.NSig > 64 && li%3 != 0 {
					continue
				}
			}
			for fi, fill := range fills {
				typ := types[(n+li+fi)%7]
				flag := (li + fi + n) % 2
				tsKind := []string{"legal", "legal", "legal", "max", "weekover", "gloday7", "gloms"}[(li*3+fi+n)%7]
				cellFill := []int{1, 2, 0, 1}[(li+fi)%4]
				fr, nc := buildMSM(rng, typ, c.NSat, c.NSig, L, fill, flag, tsKind, cellFill)
				cases = append(cases, c07Case{c07Event{Fam: c.Fam, Type: typ, NSat: c.NSat, NSig: c.NSig, Len: L, Fill: fill, Flag: flag, TsKind: tsKind, NCell: nc}, fr})
			}
		}
	}
	f.Close()

	// every decodable type x every short payload length x fills (regression for the short-MSM panic; 1005/1006 thresholds 19/21)
	all := append(append(append([]int{}, msm4Types...), msm7Types...), 1005, 1006)
	for _, typ := range all {
		maxL := 30
		if thorough {
			maxL = 1023
		}
		for L := 1; L <= maxL; L++ {
			if L > 40 && (L+typ)%17 != 0 {
				continue
			}
			for _, style := range []int{0, 1, 3} {
				p := gen.Payload(rng, typ, L, style)
				fam := "short"
				if typ < 1010 {
					fam = "base"
				}
				cases = append(cases, c07Case{c07Event{Fam: fam, Type: typ, Len: L, Fill: []string{"random", "zeros", "", "ones"}[style], TsKind: "any"}, tr.Frame(p)})
			}
		}
	}
	// other and unknown types with arbitrary payloads
	nr := 300
	if thorough {
		nr = 5000
	}
	for i := 0; i < nr; i++ {
		typ := gen.TypeClass(rng, i)
		L := 1 + rng.Intn(1023)
		if i%3 != 0 {
			L = 1 + rng.Intn(60)
		}
		cases = append(cases, c07Case{c07Event{Fam: "other", Type: typ, Len: L, Fill: "random", TsKind: "any"}, tr.Frame(gen.Payload(rng, typ, L, i%4))})
	}
	// a frame that lacks its last 1..8 bytes (exactly as long as the slice: nothing behind it), given to every entry point
	for k, f := range [][]byte{gen.Frame(rng, 1005, 19, 0), gen.Frame(rng, 1077, 60, 0), gen.Frame(rng, 1230, 5, 0), gen.Frame(rng, 1074, 1, 0), gen.Frame(rng, 1006, 21, 2)} {
		for cut := 1; cut <= 8 && cut < len(f); cut++ {
			t := make([]byte, len(f)-cut)
			copy(t, f)
			cases = append(cases, c07Case{c07Event{Fam: "truncated", Type: []int{1005, 1077, 1230, 1074, 1006}[k], Len: len(t), Fill: "random", TsKind: "any"}, t})
		}
	}
	runGuarded(w, cases)

	// the same frames as one stream through HandleMessages, displaying every message
	var stream []byte
	step := len(cases)/400 + 1
	for i := 0; i < len(cases); i += step {
		stream = append(stream, cases[i].frame...)
		if i%5 == 0 {
			stream = append(stream, gen.Garbage(rng, rng.Intn(12))...)
		}
	}
	c07Stream(w, stream, slog.LevelDebug, "stream")
	c07Stream(w, stream, slog.LevelInfo, "stream")

	// resource use: a very long run of other data without a single start byte (an NMEA-only port, a text body) is framed
	// in time proportional to its length - 30 s is more than ten times what it takes on a loaded machine
	{
		n := 2000000
		if thorough {
			n = 4000000
		}
		long := gen.Junk(rng, n, 1)
		c07StreamWithin(w, gen.Cat(gen.Frame(rng, 1005, 19, 0), long, gen.Frame(rng, 1230, 6, 0)), slog.LevelInfo, "long run without a start byte", 30*time.Second, false)
	}
	// streams that END inside a frame, at every byte (the tail is displayed as other data), and every short
	// piece that looks like the beginning of a frame - at both log levels
	for k, f := range [][]byte{gen.Frame(rng, 1005, 19, 0), gen.Frame(rng, 1077, 40, 0), gen.Frame(rng, 1230, 4, 0), gen.Frame(rng, 1006, 21, 2)} {
		pre := [][]byte{{}, gen.Frame(rng, 1230, 6, 0), gen.Junk(rng, 3, 1)}[k%3]
		for cut := 0; cut <= len(f); cut++ {
			if !thorough && cut > 12 && cut < len(f)-6 && (cut+k+int(tr.Seed()))%4 != 0 {
				continue
			}
			for _, lv := range []slog.Level{slog.LevelDebug, slog.LevelInfo} {
				c07Stream(w, gen.Cat(pre, f[:cut]), lv, "tail")
			}
		}
	}
	for _, b1 := range []byte{0x00, 0x01, 0x03, 0x04, 0xff} {
		for _, b2 := range []byte{0x00, 0x01, 0x13, 0xff} {
			for n := 1; n <= 6; n++ {
				piece := []byte{0xd3, b1, b2, 0x3e, 0xd0, 0x00}[:n]
				for _, lv := range []slog.Level{slog.LevelDebug, slog.LevelInfo} {
					c07Stream(w, piece, lv, "start-of-frame piece")
					// and handed to GetMessage / String directly
					pc := append([]byte{}, piece...)
					ev := c07Event{Fam: "piece", Len: n, Stage: "GetMessage+String", Fill: "leader", TsKind: "any"}
					ev.Panic = tr.Recover(func() {
						m, _ := handler.New(time.Date(2023, 5, 10, 12, 0, 0, 0, time.UTC), lv).GetMessage(pc)
						if m != nil {
							_ = m.String()
						}
						nm := handler.NewNonRTCM(pc)
						nm.LogLevel = lv
						_ = nm.String()
					})
					w.Emit(ev)
				}
			}
		}
	}
}

// c07Stream: one stream through HandleMessages at the given log level, every message displayed
func c07Stream(w *tr.Writer, stream []byte, lv slog.Level, fam string) {
	c07StreamWithin(w, stream, lv, fam, 120*time.Second, true)
}

func c07StreamWithin(w *tr.Writer, stream []byte, lv slog.Level, fam string, within time.Duration, display bool) {
	ev := c07Event{Fam: fam, Len: len(stream), Stage: "HandleMessages", Fill: "mixed", TsKind: "any"}
	res := make(chan string, 1)
	go func() {
		res <- tr.Recover(func() {
			chIn := make(chan byte, 64)
			chOut := make(chan handler.Message, 4)
			h := handler.New(time.Date(2023, 5, 10, 12, 0, 0, 0, time.UTC), lv)
			go func() {
				for _, b := range stream {
					chIn <- b
				}
				close(chIn)
			}()
			hp := make(chan string, 1)
			go func() { hp <- tr.Recover(func() { h.HandleMessages(chIn, chOut) }) }()
			for {
				select {
				case m, ok := <-chOut:
					if !ok {
						return
					}
					if display {
						_ = m.String()
					}
				case p := <-hp:
					if p != "" {
						panic(p)
					}
					hp = nil
				}
			}
		})
	}()
	select {
	case p := <-res:
		ev.Panic = p
	case <-time.After(within):
		ev.Timeout = true
	}
	w.Emit(ev)
}
