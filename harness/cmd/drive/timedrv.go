package main

import (
	"github.com/goblimey/go-ntrip/jsonconfig"
	fileHandler "github.com/goblimey/go-ntrip/file_handler"
	"bytes"
	"path/filepath"
	"os/exec"
	"bufio"
	"encoding/json"
	"log/slog"
	"math/rand"
	"os"
	"strings"
	"time"

	"github.com/goblimey/go-ntrip/rtcm/handler"
	"github.com/goblimey/go-ntrip/rtcm/utils"
	"verifharness/internal/gen"
	"verifharness/internal/tr"
)

// Time family (C06, C17): histories of MSM observations with known true UTC
// times are encoded into CRC-valid frames and pushed through the public
// interface (GetMessage, HandleMessages); the reported SentAt / StartOfWeek
// strings are parsed back and logged next to the truth.
func init() { commands["time"] = timeDrv }

const (
	weekMs = 604800000
	dayMs  = 86400000
)

var conOff = map[string]int64{"gps": -18000, "galileo": -18000, "glonass": -10800000, "beidou": -4000}
var conTypes = map[string][2]int{"gps": {1074, 1077}, "galileo": {1094, 1097}, "glonass": {1084, 1087}, "beidou": {1124, 1127}}
var conNames = []string{"gps", "galileo", "glonass", "beidou"}

type obsSpec struct {
	c     string
	mt    int
	u     int64 // ms since base (legal observation), or -1
	badTs uint  // illegal timestamp (u == -1)
	noise []byte
}

type tEvNew struct {
	Ev   string   `json:"ev"`
	T    [2]int64 `json:"T"`
	Zone string   `json:"zone"`
	Path string   `json:"path"`
	Src  string   `json:"src"`
}
type tEvObs struct {
	Ev   string  `json:"ev"`
	C    string  `json:"c"`
	MT   int     `json:"mt"`
	TS   uint    `json:"ts"`
	U    []int64 `json:"u"`
	Err  string  `json:"err"`
	Sent []int64 `json:"sent"`
	Sow  []int64 `json:"sow"`
	Raw  string  `json:"raw_sent"`
	RawW string  `json:"raw_sow"`
}

func floorDiv(a, b int64) int64 {
	q := a / b
	if a%b != 0 && (a < 0) != (b < 0) {
		q--
	}
	return q
}

// driver-side encoding of a true time into a timestamp (checked by the spec's TsOf)
func tsOf(c string, u int64) uint {
	off := conOff[c]
	ws := floorDiv(u-off, weekMs)*weekMs + off
	in := u - ws
	if c == "glonass" {
		return uint((in/dayMs)<<27 | (in % dayMs))
	}
	return uint(in)
}

func weekStart(c string, u int64) int64 {
	off := conOff[c]
	return floorDiv(u-off, weekMs)*weekMs + off
}

func pair(ms int64) []int64 { return []int64{floorDiv(ms, weekMs), ms - floorDiv(ms, weekMs)*weekMs} }

func msmFrame(rng *rand.Rand, mt int, ts uint) []byte {
	var w tr.BitWriter
	w.Put(uint64(mt), 12)
	w.Put(uint64(rng.Intn(4096)), 12)
	w.Put(uint64(ts), 30)
	w.Put(0, 1)
	w.Put(uint64(rng.Intn(8)), 3)
	w.Put(uint64(rng.Intn(128)), 7)
	w.Put(0, 8)
	w.Put(0, 64)
	w.Put(0, 32)
	for w.NBit%8 != 0 {
		w.Put(0, 1)
	}
	return tr.Frame(w.Buf)
}

// parseShown extracts the time printed after prefix (up to " plus " if present).
func parseShown(s, marker string, base time.Time) ([]int64, bool) {
	i := strings.Index(s, marker)
	if i < 0 {
		return []int64{}, false
	}
	t := s[i+len(marker):]
	if j := strings.Index(t, " plus "); j >= 0 {
		t = t[:j]
	}
	tm, err := time.Parse(utils.DateLayout, strings.TrimSpace(t))
	if err != nil {
		return []int64{}, false
	}
	return pair(tm.Sub(base).Milliseconds()), true
}

func record(w *tr.Writer, o obsSpec, m *handler.Message, err error, base time.Time) {
	ev := tEvObs{Ev: "obs", C: o.c, MT: o.mt, U: []int64{}, Sent: []int64{}, Sow: []int64{}}
	if o.u < 0 {
		ev.Ev = "bad"
		ev.TS = o.badTs
	} else {
		ev.TS = tsOf(o.c, o.u)
		ev.U = pair(o.u)
	}
	if err != nil {
		ev.Err = err.Error()
		if ev.Err == "" {
			ev.Err = "error"
		}
	}
	if m == nil {
		ev.Err += "|nil message"
	} else {
		if m.ErrorMessage != "" && ev.Err == "" {
			ev.Err = "msg:" + m.ErrorMessage
		}
		if int(m.Timestamp) != int(ev.TS) || m.MessageType != o.mt {
			ev.Err += "|wrong message"
		}
		ev.Raw, ev.RawW = m.SentAt, m.StartOfWeek
		ev.Sent, _ = parseShown(m.SentAt, "Time ", base)
		ev.Sow, _ = parseShown(m.StartOfWeek, " week ", base)
	}
	w.Emit(ev)
}

func runHistory(w *tr.Writer, rng *rand.Rand, T time.Time, base time.Time, obs []obsSpec, src string) {
	frames := make([][]byte, len(obs))
	for i, o := range obs {
		switch {
		case o.noise != nil:
			frames[i] = o.noise
		case o.u < 0:
			frames[i] = msmFrame(rng, o.mt, o.badTs)
		default:
			frames[i] = msmFrame(rng, o.mt, tsOf(o.c, o.u))
		}
	}
	paths := []string{"getmessage", "stream"}
	if rng.Intn(5) == 0 || src == "boundary" {
		paths = append(paths, "filehandler") // through file_handler.Handle with a non-zero end-of-file tolerance, as a live application does
	}
	for _, path := range paths {
		level := slog.LevelDebug
		if rng.Intn(2) == 0 {
			level = slog.LevelInfo
		}
		w.Emit(tEvNew{"new", [2]int64{pair(T.Sub(base).Milliseconds())[0], pair(T.Sub(base).Milliseconds())[1]}, T.Location().String(), path, src})
		h := handler.New(T, level)
		if path == "getmessage" {
			for i, o := range obs {
				var m *handler.Message
				var err error
				if p := tr.Recover(func() { m, err = h.GetMessage(frames[i]) }); p != "" {
					m, err = nil, errString("panic: "+p) // the library's failure, reported with the observation it hit
				}
				if o.noise == nil {
					record(w, o, m, err, base)
				}
			}
			continue
		}
		if path == "filehandler" {
			var all []byte
			for _, f := range frames {
				all = append(all, f...)
			}
			mc := make(chan handler.Message, 4)
			fh := fileHandler.New(mc, &jsonconfig.Config{TimeoutOnEOFMilliSeconds: 30, WaitTimeOnEOFMilliseconds: 3})
			go fh.Handle(T, bufio.NewReader(bytes.NewReader(all)))
			i := 0
			for m := range mc {
				mm := m
				if i < len(obs) && obs[i].noise == nil {
					var err error
					if mm.ErrorMessage != "" {
						err = errString(mm.ErrorMessage)
					}
					record(w, obs[i], &mm, err, base)
				}
				i++
			}
			for ; i < len(obs); i++ {
				if obs[i].noise == nil {
					record(w, obs[i], nil, nil, base)
				}
			}
			continue
		}
		chIn := make(chan byte, 16)
		chOut := make(chan handler.Message, 1)
		dead := make(chan struct{})
		go func() {
			// a panic of the stream handler ends this history (the remaining observations are reported as missing)
			defer func() {
				if recover() != nil {
					close(dead)
					close(chOut)
				}
			}()
			h.HandleMessages(chIn, chOut)
		}()
		go func() {
			defer func() { recover() }()
			for _, f := range frames {
				for _, b := range f {
					select {
					case chIn <- b:
					case <-dead:
						return
					}
				}
			}
			close(chIn)
		}()
		i := 0
		for m := range chOut {
			mm := m
			if i < len(obs) {
				if obs[i].noise == nil {
					var err error
					if mm.ErrorMessage != "" {
						err = errString(mm.ErrorMessage)
					}
					record(w, obs[i], &mm, err, base)
				}
			}
			i++
		}
		for ; i < len(obs); i++ {
			if obs[i].noise == nil {
				record(w, obs[i], nil, nil, base)
			}
		}
	}
}

type errString string

func (e errString) Error() string { return string(e) }

var zones = []*time.Location{time.UTC, utils.LocationMoscow, utils.LocationParis, utils.LocationLondon,
	time.FixedZone("P14", 14*3600), time.FixedZone("M12", -12*3600), time.FixedZone("I530", 5*3600+1800)}

var sundays = []time.Time{
	time.Date(2023, 5, 7, 0, 0, 0, 0, time.UTC), time.Date(2020, 2, 23, 0, 0, 0, 0, time.UTC), // leap-year February
	time.Date(2023, 3, 19, 0, 0, 0, 0, time.UTC), // week with European DST change
	time.Date(2024, 12, 29, 0, 0, 0, 0, time.UTC), // year change
	time.Date(2021, 10, 24, 0, 0, 0, 0, time.UTC), time.Date(2030, 6, 30, 0, 0, 0, 0, time.UTC),
	// recordings from years in which Moscow civil time was UTC+4 (2011-2014, and summers before): GLONASS time is UTC+3 regardless
	time.Date(2013, 6, 2, 0, 0, 0, 0, time.UTC), time.Date(2010, 7, 4, 0, 0, 0, 0, time.UTC), time.Date(2008, 1, 13, 0, 0, 0, 0, time.UTC),
	time.Date(2014, 10, 26, 0, 0, 0, 0, time.UTC), // the week in which Moscow changed from UTC+4 to UTC+3
	time.Date(1999, 8, 22, 0, 0, 0, 0, time.UTC), time.Date(2038, 1, 17, 0, 0, 0, 0, time.UTC), time.Date(2100, 2, 28, 0, 0, 0, 0, time.UTC),
}

var rollPoints = []int64{-10800000, -18000, -4000, 0}

func near(rng *rand.Rand, p int64) int64 {
	switch rng.Intn(6) {
	case 0:
		return p
	case 1:
		return p - 1
	case 2:
		return p + 1
	case 3:
		return p + 1000*int64(rng.Intn(31))
	case 4:
		return p - 1000*int64(rng.Intn(31))
	}
	return p + int64(rng.Intn(60001)) - 30000
}

func bogusTs(rng *rand.Rand, c string) uint {
	if c == "glonass" {
		if rng.Intn(2) == 0 {
			return uint(7<<27 | rng.Intn(dayMs))
		}
		return uint(rng.Intn(7)<<27 | (dayMs + rng.Intn(1<<27-dayMs)))
	}
	return uint(weekMs + rng.Intn(1<<30-weekMs))
}

// genHistory builds one random history.  firstNotBeforeT selects C06's precondition.
func genHistory(rng *rand.Rand, firstNotBeforeT bool) (time.Time, time.Time, []obsSpec) {
	sunday := sundays[rng.Intn(len(sundays))]
	base := sunday.AddDate(0, 0, -7)
	// T relative to base, inside UTC week 1
	var t int64
	if rng.Intn(2) == 0 {
		t = weekMs + rng.Int63n(weekMs)
	} else {
		p := rollPoints[rng.Intn(4)] + 2*weekMs // a rollover at the end of week 1 ...
		if rng.Intn(3) == 0 {
			p -= weekMs // ... or at its beginning
		}
		t = near(rng, p)
		if t < weekMs {
			t = weekMs + int64(rng.Intn(1000))
		}
		if t >= 2*weekMs {
			t = 2*weekMs - 1 - int64(rng.Intn(1000))
		}
	}
	T := base.Add(time.Duration(t) * time.Millisecond).In(zones[rng.Intn(len(zones))])
	ncon := 1 + rng.Intn(4)
	cons := append([]string{}, conNames...)
	rng.Shuffle(4, func(i, j int) { cons[i], cons[j] = cons[j], cons[i] })
	cons = cons[:ncon]
	last := map[string]int64{}
	var obs []obsSpec
	limit := int64(3*weekMs + 2*dayMs)
	n := 8 + rng.Intn(50)
	if rng.Intn(5) == 0 {
		// a long session: up to ten weeks, many rollovers
		limit = int64(4+rng.Intn(7)) * weekMs
		n = 60 + rng.Intn(120)
	}
	for len(obs) < n {
		c := cons[rng.Intn(ncon)]
		mt := conTypes[c][rng.Intn(2)]
		if rng.Intn(20) == 0 {
			obs = append(obs, obsSpec{c: c, mt: mt, u: -1, badTs: bogusTs(rng, c)})
			continue
		}
		if rng.Intn(25) == 0 {
			nt := []int{1104, 1107, 1114, 1117, 1134, 1137, 1005, 1230}[rng.Intn(8)]
			obs = append(obs, obsSpec{c: "noise", noise: gen.Frame(rng, nt, 22+rng.Intn(10), 0)})
			continue
		}
		if rng.Intn(25) == 0 {
			// a CRC-valid frame of this constellation's type that is too short to hold a timestamp (payload 2..6 bytes): it is
			// refused, and what follows keeps its times
			obs = append(obs, obsSpec{c: "noise", noise: gen.Frame(rng, mt, 2+rng.Intn(5), 0)})
			continue
		}
		if rng.Intn(25) == 0 {
			// a frame of this constellation damaged in transit (CRC fails) whose timestamp field claims another time of the week
			f := msmFrame(rng, mt, uint(rng.Intn(604800000)))
			f[len(f)-1-rng.Intn(3)] ^= byte(1 + rng.Intn(255))
			obs = append(obs, obsSpec{c: "noise", noise: f})
			continue
		}
		var u int64
		prev, seen := last[c]
		if !seen {
			ws := weekStart(c, t)
			we := ws + weekMs
			lo := ws
			if firstNotBeforeT {
				lo = t
			}
			switch rng.Intn(6) {
			case 0:
				u = t
			case 1:
				u = lo
			case 2:
				u = we - 1 - int64(rng.Intn(2000))
			case 3:
				u = t + int64(rng.Intn(5000)) - 2500
			default:
				u = lo + rng.Int63n(we-lo)
			}
			if u < lo {
				u = lo
			}
			if u >= we {
				u = we - 1
			}
		} else {
			next := weekStart(c, prev) + weekMs // next rollover of c
			r0 := rng.Intn(20)
			if limit > 4*weekMs && r0 < 8 && rng.Intn(2) == 0 {
				r0 = 16 + rng.Intn(4) // long sessions advance mostly by days
			}
			switch r := r0; {
			case r < 8:
				u = prev + 1000*int64(rng.Intn(3))
			case r < 12:
				u = prev + rng.Int63n(3600000)
			case r < 16 && next-prev < 6*dayMs-60000:
				u = near(rng, next)
				if u < prev {
					u = prev
				}
			case r < 18:
				u = prev + rng.Int63n(6*dayMs)
			default:
				u = prev + 6*dayMs - 1 - int64(rng.Intn(1000))
			}
			if u-prev >= 6*dayMs {
				u = prev + 6*dayMs - 1
			}
		}
		if u > limit {
			break
		}
		last[c] = u
		obs = append(obs, obsSpec{c: c, mt: mt, u: u})
	}
	return T, base, obs
}

// toy tick (TimeTrack_MC: 4 ticks a day, 28 a week) -> real ms since base, monotone, mapping
// each constellation's toy week boundary onto its real one
func toyToReal(t int64) int64 {
	k := floorDiv(t, 28)
	j := t - k*28
	switch {
	case j <= 24:
		return k*weekMs + j*6*3600000
	case j == 25:
		return (k+1)*weekMs - 10800000
	case j == 26:
		return (k+1)*weekMs - 18000
	}
	return (k+1)*weekMs - 4000
}

type simBehaviour struct {
	T    int64     `json:"T"`
	Hist [][]int64 `json:"hist"` // [constellation index 1..4 (gps, galileo, glonass, beidou), toy time or -1]
}

func timeDrv(args []string) {
	mode, out := args[0], args[1]
	w := tr.NewWriter(out)
	defer w.Close()
	rng := tr.Rand(int64(mode[2]))
	ncases := 120
	if tr.Thorough() {
		ncases = 1500
	}
	for i := 0; i < ncases; i++ {
		T, base, obs := genHistory(rng, mode == "c06")
		runHistory(w, rng, T, base, obs, "gen")
	}
	// the exact boundaries, every constellation: a handler started at the very first millisecond of the
	// constellation's week whose first epoch is that millisecond (timestamp 0), two messages per epoch, the last
	// millisecond of the week, timestamp 0 again at the rollover, GLONASS day boundaries
	for ci, c := range conNames {
		off := weekStart(c, weekMs) - weekMs // start of c's week relative to the UTC week
		ws := 2*weekMs + off
		base := sundays[(ci+int(tr.Seed()))%len(sundays)].AddDate(0, 0, -7)
		mk := func(us ...int64) []obsSpec {
			var o []obsSpec
			for i, u := range us {
				o = append(o, obsSpec{c: c, mt: conTypes[c][i%2], u: u})
			}
			return o
		}
		at := func(t int64) time.Time {
			return base.Add(time.Duration(t) * time.Millisecond).In(zones[(ci+int(t&3))%len(zones)])
		}
		rest := []int64{ws + 1000, ws + dayMs - 1, ws + dayMs, ws + dayMs, ws + 6*dayMs, ws + weekMs - 1, ws + weekMs - 1,
			ws + weekMs, ws + weekMs, ws + weekMs + 1, ws + weekMs + 3*dayMs - 1, ws + weekMs + 3*dayMs}
		runHistory(w, rng, at(ws), base, mk(append([]int64{ws, ws}, rest...)...), "boundary")
		runHistory(w, rng, at(ws), base, mk(append([]int64{ws, ws + 1}, rest...)...), "boundary")
		runHistory(w, rng, at(ws+1), base, mk(append([]int64{ws + 1, ws + 1}, rest...)...), "boundary")
		runHistory(w, rng, at(ws), base, mk(append([]int64{ws + 1}, rest...)...), "boundary")
		// start times that are not whole milliseconds (time.Now() never is): the last nanoseconds and microseconds of the
		// week still belong to it, the first ones of the next week to the next
		for _, dn := range []time.Duration{-1, -400 * time.Microsecond, -500 * time.Microsecond, -999999, 1, 499999, 500000} {
			if mode == "c06" && dn < 0 {
				continue // (C06 wants the first observation at or after the start time)
			}
			T := at(ws + weekMs).Add(dn)
			if dn < 0 {
				runHistory(w, rng, T, base, mk(ws+1000, ws+dayMs, ws+weekMs-1, ws+weekMs, ws+weekMs+5000), "boundary")
			} else {
				runHistory(w, rng, T, base, mk(ws+weekMs+1, ws+weekMs+dayMs, ws+2*weekMs-1, ws+2*weekMs), "boundary")
			}
		}
		if mode != "c06" {
			// C17: any start time in the week of the first observation, the first observation may be earlier
			runHistory(w, rng, at(ws+weekMs-1), base, mk(append([]int64{ws, ws}, rest...)...), "boundary")
			runHistory(w, rng, at(ws+3*dayMs), base, mk(append([]int64{ws, ws + 1}, rest...)...), "boundary")
		}
	}
	// start times expressed in a location with daylight saving, in the week that BEGINS with a change of the clocks (one
	// civil day back from there is 23 or 25 hours): every day of that week, times of day around UTC midnight (and around
	// 21:00 UTC = GLONASS midnight), every constellation
	{
		dstZones := []*time.Location{utils.LocationParis, utils.LocationLondon}
		if ny, err := time.LoadLocation("America/New_York"); err == nil {
			dstZones = append(dstZones, ny)
		}
		changes := []time.Time{ // Sundays on which clocks change in Europe (the first five) or North America (the last two)
			time.Date(2014, 10, 26, 0, 0, 0, 0, time.UTC), time.Date(2021, 10, 31, 0, 0, 0, 0, time.UTC), time.Date(2023, 10, 29, 0, 0, 0, 0, time.UTC),
			time.Date(2023, 3, 26, 0, 0, 0, 0, time.UTC), time.Date(2024, 3, 31, 0, 0, 0, 0, time.UTC),
			time.Date(2023, 11, 5, 0, 0, 0, 0, time.UTC), time.Date(2023, 3, 12, 0, 0, 0, 0, time.UTC)}
		tods := []int64{5 * 60000, 30 * 60000, 59 * 60000, 61 * 60000, 150 * 60000, 21*3600000 + 30*60000, 23*3600000 + 30*60000}
		for si, sun := range changes {
			base := sun.AddDate(0, 0, -14)
			for ci, c := range conNames {
				off := weekStart(c, weekMs) - weekMs
				ws := 2*weekMs + off
				for d := int64(1); d <= 6; d++ {
					for ti, tod := range tods {
						for zi, z := range dstZones {
							if !tr.Thorough() && !((d == int64(1+(si+ci)%6) || d == 6) && (ti == 1 || ti == 5) && zi == (si+ci+int(d))%len(dstZones)) {
								continue
							}
							t := 2*weekMs + d*dayMs + tod
							if t < ws+1000 {
								continue
							}
							u2 := ws + weekMs - 1
							if u2 < t+60000 {
								u2 = t + 60000
							}
							obs := []obsSpec{{c: c, mt: conTypes[c][0], u: t + 1000}, {c: c, mt: conTypes[c][1], u: t + 60000},
								{c: c, mt: conTypes[c][0], u: u2}, {c: c, mt: conTypes[c][1], u: ws + weekMs + 5000}}
							runHistory(w, rng, base.Add(time.Duration(t)*time.Millisecond).In(z), base, obs, "dst-week")
						}
					}
				}
			}
		}
	}
	// the application: displayrtcm3 <file> <date> with every date of the week of the recording, on machines in
	// several time zones (C17: "displaying a recorded file with any date of that week")
	if bin := os.Getenv("VERIF_DISPLAY_BIN"); bin != "" && mode != "c06" {
		runAppHistories(w, rng, bin)
	}
	// direction B: behaviours simulated by TLC from TimeTrack_MC, concretised
	if len(args) > 2 {
		f, err := os.Open(args[2])
		if err != nil {
			panic(err)
		}
		defer f.Close()
		sc := bufio.NewScanner(f)
		sc.Buffer(make([]byte, 1<<20), 1<<20)
		for sc.Scan() {
			var b simBehaviour
			if json.Unmarshal(sc.Bytes(), &b) != nil || len(b.Hist) == 0 {
				continue
			}
			base := sundays[rng.Intn(len(sundays))].AddDate(0, 0, -7)
			T := base.Add(time.Duration(toyToReal(b.T)) * time.Millisecond).In(zones[rng.Intn(len(zones))])
			var obs []obsSpec
			for _, hh := range b.Hist {
				c := conNames[hh[0]-1]
				mt := conTypes[c][rng.Intn(2)]
				if hh[1] < 0 {
					obs = append(obs, obsSpec{c: c, mt: mt, u: -1, badTs: bogusTs(rng, c)})
				} else {
					obs = append(obs, obsSpec{c: c, mt: mt, u: toyToReal(hh[1])})
				}
			}
			runHistory(w, rng, T, base, obs, "tlc")
		}
	}
}

// runAppHistories: a recorded file with observations of all four constellations spread over one week, displayed by
// the built displayrtcm3 binary with each of the seven dates of that week (date only, and RFC 3339 instants),
// the process's local time zone set through TZ.  The times are read back from the display.
func runAppHistories(w *tr.Writer, rng *rand.Rand, bin string) {
	dir, err := os.MkdirTemp("", "c17app")
	if err != nil {
		panic(err)
	}
	defer os.RemoveAll(dir)
	zonesTZ := []string{"UTC", "Asia/Kolkata", "Europe/Paris", "America/New_York", "Pacific/Kiritimati", "Australia/Adelaide"}
	if !tr.Thorough() {
		zonesTZ = []string{"UTC", "Asia/Kolkata", "America/New_York", zonesTZ[3+int(tr.Seed())%3]}
	}
	sunday := sundays[int(tr.Seed())%len(sundays)]
	base := sunday.AddDate(0, 0, -7)
	// observations inside the week of `sunday` for every constellation: Sunday 10:00, Tuesday 03:00, Thursday 12:00:01, Saturday 19:00
	var obs []obsSpec
	for _, off := range []int64{10 * 3600000, 2*dayMs + 3*3600000, 4*dayMs + 12*3600000 + 1000, 6*dayMs + 19*3600000} {
		for _, c := range conNames {
			obs = append(obs, obsSpec{c: c, mt: conTypes[c][rng.Intn(2)], u: weekMs + off + int64(rng.Intn(1000))})
		}
	}
	file := filepath.Join(dir, "week.rtcm")
	var data []byte
	for _, o := range obs {
		data = append(data, msmFrame(rng, o.mt, tsOf(o.c, o.u))...)
	}
	if err := os.WriteFile(file, data, 0o600); err != nil {
		panic(err)
	}
	for d := 0; d < 7; d++ {
		day := sunday.AddDate(0, 0, d)
		args := []struct {
			arg string
			T   time.Time
		}{{day.Format("2006-01-02"), day}} // documented: a date means that day, UTC
		if d%3 == 0 {
			t := day.Add(13*time.Hour + 30*time.Minute)
			args = append(args, struct {
				arg string
				T   time.Time
			}{t.In(time.FixedZone("", 5*3600+1800)).Format(time.RFC3339), t})
		}
		for _, a := range args {
			for _, tz := range zonesTZ {
				cmd := exec.Command(bin, file, a.arg)
				cmd.Env = append(os.Environ(), "TZ="+tz)
				cmd.Dir = dir
				out, rerr := cmd.Output()
				p := pair(a.T.Sub(base).Milliseconds())
				w.Emit(tEvNew{"new", [2]int64{p[0], p[1]}, "TZ=" + tz + " arg=" + a.arg, "app", "app"})
				var sent, sow []string
				for _, line := range strings.Split(string(out), "\n") {
					if strings.HasPrefix(line, "Time ") {
						sent = append(sent, line)
					} else if strings.HasPrefix(line, "Start of ") {
						sow = append(sow, line)
					}
				}
				for i, o := range obs {
					ev := tEvObs{Ev: "obs", C: o.c, MT: o.mt, TS: tsOf(o.c, o.u), U: pair(o.u), Sent: []int64{}, Sow: []int64{}}
					if rerr != nil {
						ev.Err = "displayrtcm3: " + rerr.Error()
					}
					if i < len(sent) && i < len(sow) {
						ev.Raw, ev.RawW = sent[i], sow[i]
						ev.Sent, _ = parseShown(sent[i], "Time ", base)
						ev.Sow, _ = parseShown(sow[i], " week ", base)
					} else if ev.Err == "" {
						ev.Err = "no time displayed for this message"
					}
					w.Emit(ev)
				}
			}
		}
	}
}
