package main

import (
	"github.com/goblimey/go-ntrip/rtcm/pushback"
	"verifharness/internal/tr"
)

// pushback: API-level conformance of rtcm/pushback.ByteChannel to PushBack.tla - seeded sequences of
// send / close / push / get, the result of every GetNextByte recorded.
func init() { commands["pushback"] = pushbackDrv }

func pushbackDrv(args []string) {
	w := tr.NewWriter(args[0])
	defer w.Close()
	rng := tr.Rand(77)
	nseq := 300
	if tr.Thorough() {
		nseq = 3000
	}
	for s := 0; s < nseq; s++ {
		ch := make(chan byte, 64)
		bc := pushback.New(ch)
		w.Emit(map[string]interface{}{"op": "new"})
		inCh, inPb, closed := 0, 0, false
		n := 5 + rng.Intn(40)
		for i := 0; i < n; i++ {
			switch k := rng.Intn(10); {
			case k < 3 && !closed && inCh < 60:
				b := rng.Intn(256)
				ch <- byte(b)
				inCh++
				w.Emit(map[string]interface{}{"op": "send", "b": b})
			case k == 3 && !closed && rng.Intn(4) == 0:
				bc.Close()
				closed = true
				w.Emit(map[string]interface{}{"op": "close"})
			case k < 6:
				b := rng.Intn(256)
				if rng.Intn(3) == 0 {
					b = 0xd3
				}
				bc.PushBack(byte(b))
				inPb++
				w.Emit(map[string]interface{}{"op": "push", "b": b})
			default:
				if inPb+inCh == 0 && !closed {
					continue // GetNextByte would block: nothing to read and the channel is open
				}
				ev := map[string]interface{}{"op": "get", "b": -1, "err": ""}
				if p := tr.Recover(func() {
					b, err := bc.GetNextByte()
					if err != nil {
						ev["err"] = err.Error()
					} else {
						ev["b"] = int(b)
					}
				}); p != "" {
					ev["err"] = "panic: " + p
				}
				if ev["err"] == "" {
					if inPb > 0 {
						inPb--
					} else {
						inCh--
					}
				}
				w.Emit(ev)
			}
		}
	}
}
