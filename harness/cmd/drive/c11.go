package main

import (
	"fmt"
	"verifharness/internal/gen"
	"verifharness/internal/tr"
)

// C10 / C11 case files for the overlay tests of the package-main applications.
//   drive appcases c11 <out> <holds...>    drive appcases c10 <out>
func init() { commands["appcases"] = appCases }

type appCase struct {
	ID      int    `json:"id"`
	Mode    string `json:"mode"`
	In      []int  `json:"in"`
	Hold    int    `json:"hold"`
	Display bool   `json:"display"`
	Record  bool   `json:"record"`
	Chunk   int    `json:"chunk"`
	Seed    int64  `json:"seed"`
	Cls     string `json:"cls"`
	EOFWith bool   `json:"eof_with_data"`
}

func appCases(args []string) {
	mode := args[0]
	w := tr.NewWriter(args[1])
	defer w.Close()
	rng := tr.Rand(int64(mode[2]) + 100)
	thorough := tr.Thorough()
	id := 0
	switch mode {
	case "c11":
		holds := []int{0, -1, 1, 2}
		n := 6
		if thorough {
			n = 40
			holds = []int{0, -1, -2, -3, 1, 2, 3, 5}
		}
		// the kind of the LAST message varies: MSM with the multiple-message flag set / clear, 1005, other types, junk, partial frame
		lastKinds := 9
		for k := 0; k < lastKinds; k++ {
			head := wellStructured(rng, 2+rng.Intn(4), 60, k)
			var last []byte
			switch k {
			case 6: // a long run of other data at the end: its display is a very large single write (> 64 kB)
				last = gen.Junk(rng, 14000+rng.Intn(4000), 1)
			case 7:
				last = gen.Junk(rng, 40000, 0)
			case 8: // the largest frame there is
				last = gen.Frame(rng, 1230, 1023, 0)
			case 0, 1:
				sp := gen.RandomMSM(rng, gen.MSMTypes[rng.Intn(14)], 7, 0, uint64(1-k), 0) // k=0: more messages follow
				last = tr.Frame(sp.Encode())
			case 2:
				last = gen.Cat(tr.Frame(gen.RandomMSM(rng, 1077, 7, 0, 1, 0).Encode()), tr.Frame(gen.RandomMSM(rng, 1087, 7, 0, 1, 0).Encode()))
			case 3:
				last = gen.Frame(rng, 1230, 8, 0)
			case 4:
				last = gen.Junk(rng, 12, 1)
			default:
				last = gen.Frame(rng, 1097, 200, 0)[:50]
			}
			for _, h := range []int{0, 1} {
				id++
				w.Emit(appCase{ID: id, Mode: "c11", In: tr.Ints(gen.Cat(head, last)), Hold: h, Chunk: 0, Seed: rng.Int63(), Cls: "c11-last"})
			}
		}
		// rtcmfilter's other outputs (display log, record file), every combination of the two options
		for k, dr := range [][2]bool{{true, true}, {true, false}, {false, true}, {true, true}, {true, true}, {true, false}, {true, true}, {true, false}} {
			var in []byte
			for j := 0; j < 6+rng.Intn(6); j++ {
				in = append(in, tr.Frame(gen.RandomMSM(rng, gen.MSMTypes[rng.Intn(14)], 7, 0, 0, 0).Encode())...)
				if j%4 == 1 {
					in = append(in, gen.Junk(rng, 30, 1)...)
				}
			}
			if k == 3 {
				in = append(in, gen.Frame(rng, 1005, 19, 0)...)
			}
			if k >= 4 {
				// the last message is the most expensive one to display (64 signal cells)
				in = append(in, tr.Frame(gen.RandomMSM(rng, []int{1077, 1097}[k%2], 3, 0, 0, 0).Encode())...)
			}
			id++
			w.Emit(appCase{ID: id, Mode: "c11", In: tr.Ints(in), Hold: 0, Display: dr[0], Record: dr[1], Chunk: []int{0, 64, 1, 4096}[k%4], Seed: rng.Int63(), Cls: "c11-files"})
		}
		// small inputs repeated many times: record only, display only, both
		for k, dr := range [][2]bool{{false, true}, {true, false}, {true, true}} {
			in := gen.Cat(gen.Frame(rng, 1005, 19, 0), gen.Frame(rng, 1006, 21, 0), tr.Frame(gen.RandomMSM(rng, 1077, 7, 0, 0, 0).Encode()))
			if k == 0 {
				in = gen.Cat(in, gen.Frame(rng, 1230, 6, 0))
			}
			id++
			w.Emit(appCase{ID: id, Mode: "c11", In: tr.Ints(in), Hold: 0, Display: dr[0], Record: dr[1], Chunk: 0, Seed: rng.Int63(), Cls: "c11-files-repeat"})
		}
		// inputs for the built programs (no MSM with a bad time: the display is compared byte for byte)
		for k := 0; k < 3; k++ {
			var in []byte
			for j := 0; j < 4+3*k; j++ {
				in = append(in, gen.Frame(rng, []int{1005, 1006, 1230, 1033, 4072}[(j+k)%5], []int{19, 21, 8, 30, 12}[(j+k)%5], 0)...)
				if j%3 == 1 {
					in = append(in, gen.Junk(rng, 9, 1)...)
				}
			}
			if k == 2 {
				in = append(in, tr.Frame(gen.RandomMSM(rng, 1077, 7, 0, 0, 0).Encode())...)
			}
			id++
			w.Emit(appCase{ID: id, Mode: "c11x", In: tr.Ints(in), Cls: "binary"})
		}
		// inputs that end with a very short fragment: 1-4 bytes of a frame, one stray byte (a final line feed), other data
		// ending with a start byte - the fragment is data like any other and is shown before the function returns
		for k, tail := range [][]byte{{0xd3}, {0xd3, 0x00}, {0xd3, 0x00, 0x08}, {0xd3, 0x00, 0x08, 0x4c}, {0xd3, 0x00, 0x08, 0x4c, 0xe0}, {'\n'}, {'x', 'y', 0xd3}, {0x00}} {
			in := gen.Cat(gen.Frame(rng, 1005, 19, 0), gen.Frame(rng, 1230, 8, 0), tail)
			id++
			w.Emit(appCase{ID: id, Mode: "c11x", In: tr.Ints(in), Cls: "short tail"})
			id++
			w.Emit(appCase{ID: id, Mode: "c11", In: tr.Ints(in), Hold: holds[k%len(holds)], Chunk: []int{0, 1, 7}[k%3], Seed: rng.Int63(), Cls: "c11-short-tail"})
		}
		// one output fails (the display log's filestore is full) while standard output is slow; and a standard output whose
		// consumer stalls for several seconds on its first write
		{
			in := gen.Cat(gen.Frame(rng, 1005, 19, 0), gen.Frame(rng, 1006, 21, 0), gen.Junk(rng, 5, 1), gen.Frame(rng, 1005, 19, 0), gen.Frame(rng, 1230, 6, 0))
			id++
			w.Emit(appCase{ID: id, Mode: "c11", In: tr.Ints(in), Hold: 0, Display: true, Record: false, Chunk: 0, Seed: rng.Int63(), Cls: "c11-devfull"})
			id++
			w.Emit(appCase{ID: id, Mode: "c11", In: tr.Ints(in), Hold: 0, Display: true, Record: true, Chunk: 7, Seed: rng.Int63(), Cls: "c11-devfull"})
			stall := 5500
			if thorough {
				stall = 12000
			}
			id++
			w.Emit(appCase{ID: id, Mode: "c11", In: tr.Ints(in), Hold: stall, Display: false, Record: true, Chunk: 0, Seed: rng.Int63(), Cls: "c11-stall"})
		}
		for i := 0; i < n; i++ {
			var in []byte
			switch i % 5 {
			case 0:
				in = gen.Frame(rng, 1005, 19, 0) // a single message
			case 1:
				in = wellStructured(rng, 3+rng.Intn(12), 200, i)
			case 2:
				in = gen.Cat(gen.Junk(rng, 5, 1), gen.Frame(rng, gen.MSMTypes[rng.Intn(14)], 30+rng.Intn(300), 0), gen.Frame(rng, 1006, 21, 0), []byte{0xd3, 0})
			case 3:
				in = gen.Cat(wellStructured(rng, 2+rng.Intn(4), 60, i), gen.Garbage(rng, 20))
			default:
				in = wellStructured(rng, 20+rng.Intn(30), 40, i)
			}
			for _, h := range holds {
				id++
				w.Emit(appCase{ID: id, Mode: "c11", In: tr.Ints(in), Hold: h, Chunk: []int{0, 1, 7, 4096}[rng.Intn(4)], Seed: rng.Int63(), Cls: "c11", EOFWith: id%4 == 0})
			}
		}
	case "c10":
		n := 30
		if thorough {
			n = 300
		}
		// every type class, short and long, in one stream each (display/record combinations cycle)
		for k := 0; k < 4; k++ {
			var in []byte
			for ci := 0; ci < len(gen.MSMTypes)+len(gen.OtherTypes)+1; ci++ {
				plen := 1 + rng.Intn(40)
				if (ci+k)%2 == 0 {
					plen = 65 + rng.Intn(300)
				}
				in = append(in, gen.Frame(rng, gen.TypeClass(rng, ci), plen, 0)...)
				if ci%5 == k {
					in = append(in, gen.Junk(rng, 1+rng.Intn(20), ci%3)...)
				}
			}
			id++
			w.Emit(appCase{ID: id, Mode: "c10", In: tr.Ints(in), Display: k >= 2, Record: k%2 == 1, Chunk: []int{0, 1, 5, 64}[k], Seed: rng.Int63(), Cls: "alltypes"})
		}
		// the same frame several times in a row (a base station repeats its description): every copy is output; and one
		// input far larger than any internal buffer
		{
			f := gen.Frame(rng, 1006, 21, 0)
			g := tr.Frame(gen.RandomMSM(rng, 1077, 7, 0, 0, 0).Encode())
			id++
			w.Emit(appCase{ID: id, Mode: "c10", In: tr.Ints(gen.Cat(f, f, f, g, g, gen.Junk(rng, 3, 1), f, g)), Display: true, Record: true, Chunk: 0, Seed: rng.Int63(), Cls: "identical frames repeated"})
			var big []byte
			for len(big) < 200000 {
				big = append(big, gen.Frame(rng, gen.TypeClass(rng, len(big)), 1+rng.Intn(600), 0)...)
				if rng.Intn(5) == 0 {
					big = append(big, gen.Junk(rng, 1+rng.Intn(300), rng.Intn(3))...)
				}
			}
			id++
			w.Emit(appCase{ID: id, Mode: "c10", In: tr.Ints(big), Display: false, Record: true, Chunk: 4096, Seed: rng.Int63(), Cls: "200 kB"})
		}
		// a live source with a non-zero end-of-file tolerance that drops out for a moment twice (end-of-file, read time-out)
		for k, cls := range []string{"transient-eof", "transient-timeout", "transient-twice-eof"} {
			var in []byte
			for j := 0; j < 9; j++ {
				in = append(in, gen.Frame(rng, gen.TypeClass(rng, j+k), 10+rng.Intn(80), 0)...)
			}
			id++
			w.Emit(appCase{ID: id, Mode: "c10", In: tr.Ints(in), Display: k == 1, Record: k == 0, Chunk: 0, Seed: rng.Int63(), Cls: cls})
		}
		// valid frames of MSM types whose payload is too short to hold even the MSM header (1..8 bytes): frames like any other
		{
			var in []byte
			for plen := 1; plen <= 8; plen++ {
				in = append(in, gen.Frame(rng, gen.MSMTypes[(plen*3)%14], plen, 0)...)
				if plen%3 == 0 {
					in = append(in, gen.Frame(rng, 1005, 19, 0)...)
				}
			}
			id++
			w.Emit(appCase{ID: id, Mode: "c10", In: tr.Ints(in), Display: true, Record: false, Chunk: 0, Seed: rng.Int63(), Cls: "short MSM-typed frames"})
		}
		// valid frames of the smallest and largest type numbers (values that mean something special inside the library:
		// 0, 1, 2 and 4094, 4095 read as signed), between ordinary ones: each is a frame like any other
		{
			var in []byte
			for _, t := range []int{1005, 0, 1, 2, 3, 1230, 4093, 4094, 4095, 1006} {
				in = append(in, gen.Frame(rng, t, 6+rng.Intn(20), 0)...)
			}
			id++
			w.Emit(appCase{ID: id, Mode: "c10", In: tr.Ints(in), Display: false, Record: true, Chunk: 0, Seed: rng.Int63(), Cls: "extreme type numbers"})
		}
		// a frame whose CRC is wrong in exactly one of its three bytes (each in turn), between valid frames
		for k := 0; k < 3; k++ {
			a, b := gen.Frame(rng, 1005, 19, 0), gen.Frame(rng, 1230, 6, 0)
			bad := gen.Frame(rng, gen.TypeClass(rng, k+2), 8+rng.Intn(40), 0)
			bad[len(bad)-3+k] ^= byte(1 << uint(rng.Intn(8)))
			id++
			w.Emit(appCase{ID: id, Mode: "c10", In: tr.Ints(gen.Cat(a, bad, b)), Display: false, Record: k == 1, Chunk: 0, Seed: rng.Int63(), Cls: fmt.Sprintf("crc byte %d wrong", k)})
		}
		// a consumer of the output that stalls for several seconds on its first write while further frames follow
		{
			in := gen.Cat(gen.Junk(rng, 10, 1), gen.Frame(rng, 1005, 19, 0), gen.Frame(rng, 1006, 21, 0), gen.Frame(rng, 1230, 6, 0), gen.Frame(rng, 1005, 19, 0))
			cls := "stall"
			if thorough {
				cls = "stall-long"
			}
			id++
			w.Emit(appCase{ID: id, Mode: "c10", In: tr.Ints(in), Display: false, Record: false, Chunk: 0, Seed: rng.Int63(), Cls: cls})
		}
		// other data that looks like the beginning of a frame (zero length, tiny length, reserved bits, maximum length)
		// between valid frames: nothing of it may reach the output
		for k, piece := range [][]byte{{0xd3, 0, 0, 0x41, 0x42}, {0xd3, 0, 0, 0, 0, 0}, {0xd3, 0, 1, 0x3e, 0x11, 0x22, 0x33}, {0xd3, 0xfc, 0x05, 1, 2, 3}, {0xd3, 0x03, 0xff, 0x3e, 0xd0}, {0xd3, 0xd3, 0, 0, 0xd3}} {
			a, b := gen.Frame(rng, 1005, 19, 0), gen.Frame(rng, gen.TypeClass(rng, k), 1+rng.Intn(30), 0)
			in := gen.Cat(a, piece, gen.Junk(rng, k%3, 1), b, piece)
			id++
			w.Emit(appCase{ID: id, Mode: "c10", In: tr.Ints(in), Display: k%2 == 0, Record: k%3 == 1, Chunk: []int{0, 1, 64}[k%3], Seed: rng.Int63(), Cls: "leader-like other data"})
		}
		// long runs of other data in front of frames, lengths around the powers of two
		for k, L := range []int{4095, 4096, 1023, 8191, 255, 16383, 4097, 8192} {
			if !thorough && k >= 4 {
				break
			}
			in := gen.Cat(gen.Junk(rng, L, 1), gen.Frame(rng, gen.TypeClass(rng, k), 1+rng.Intn(40), 0), gen.Frame(rng, 1230, 6, 0), gen.Frame(rng, 1005, 19, 0))
			id++
			w.Emit(appCase{ID: id, Mode: "c10", In: tr.Ints(in), Display: k%2 == 1, Record: k%3 == 0, Chunk: []int{0, 4096, 64, 1}[k%4], Seed: rng.Int63(), Cls: fmt.Sprintf("junk%d then frames", L)})
		}
		for i := 0; i < n; i++ {
			var in []byte
			cls := ""
			switch i % 6 {
			case 0:
				in, cls = wellStructured(rng, 1+rng.Intn(10), 150, i), "ws"
			case 1:
				in, cls = gen.Garbage(rng, rng.Intn(600)), "garbage"
			case 2:
				f := gen.Frame(rng, gen.TypeClass(rng, i), 1+rng.Intn(200), 0)
				c, _ := gen.Corrupt(rng, f, i)
				in, cls = gen.Cat(wellStructured(rng, rng.Intn(4), 50, i), c, wellStructured(rng, rng.Intn(4), 50, i+1)), "corrupt"
			case 3:
				in, cls = gen.Cat(gen.Junk(rng, rng.Intn(80), 1), wellStructured(rng, 2+rng.Intn(5), 1023, i), gen.Frame(rng, 1077, 300, 0)[:rng.Intn(300)]), "long+tail"
			case 4:
				in, cls = []byte{}, "empty"
				if i > 4 {
					in, cls = gen.Junk(rng, 1+rng.Intn(100), i%3), "junk-only"
				}
			default:
				in, cls = gen.Cat(gen.Garbage(rng, rng.Intn(30)), wellStructured(rng, 1+rng.Intn(6), 80, i), gen.Garbage(rng, rng.Intn(30))), "mixed"
			}
			id++
			w.Emit(appCase{ID: id, Mode: "c10", In: tr.Ints(in), Display: i%4 >= 2, Record: i%2 == 1, Chunk: []int{0, 1, 5, 64, 4096}[rng.Intn(5)], Seed: rng.Int63(), Cls: cls,
				EOFWith: i%3 == 0}) // a third of the readers report end of file together with the last chunk
		}
	}
}
