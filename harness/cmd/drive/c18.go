package main

import (
	"time"
	"log/slog"
	"fmt"
	"bytes"
	"reflect"
	"runtime"
	"sort"
	"strconv"
	"sync"
	"sync/atomic"

	circularQueue "github.com/goblimey/go-ntrip/apps/proxy/circular_queue"
	"github.com/goblimey/go-ntrip/rtcm/handler"
	"github.com/goblimey/go-ntrip/verifhook"
	"verifharness/internal/tr"
)

// C18: the recent-message queue.  Exhaustive Add/Get sequences, long runs, and
// concurrent adders / snapshot readers with the linearisation order of the
// additions taken from the verif hook under the queue's lock.
func init() { commands["c18"] = c18 }

type qEv struct {
	Ev    string `json:"ev"`
	N     int    `json:"n,omitempty"`
	ID    int    `json:"id,omitempty"`
	Len   int    `json:"len"`
	From  int    `json:"from,omitempty"`
	To    int    `json:"to,omitempty"`
	Res   []int  `json:"res,omitempty"`
	Idx   int    `json:"idx,omitempty"`
	G     int    `json:"g,omitempty"`
	Stamp int64  `json:"stamp,omitempty"`
	Panic string `json:"panic,omitempty"`
	Was   []int  `json:"was,omitempty"`
}

// goid: the current goroutine's number (the hook runs in the adder's goroutine, so this tells
// which addition is being linearised without looking into the queue's storage)
func goid() int64 {
	var buf [64]byte
	b := buf[:runtime.Stack(buf[:], false)]
	b = bytes.TrimPrefix(b, []byte("goroutine "))
	if i := bytes.IndexByte(b, ' '); i > 0 {
		n, _ := strconv.ParseInt(string(b[:i]), 10, 64)
		return n
	}
	return -1
}

// held: number of items the queue holds, as reported by the hook under the queue's lock
// (the snapshot length if the hook has not fired)
var heldByHook = -1

func watchHeld() {
	heldByHook = -1
	verifhook.Handler = func(point string, kv ...int) {
		if point == "cq.add.locked" && len(kv) > 0 {
			heldByHook = kv[0]
		}
	}
}

func held(q *circularQueue.CircularQueue) int {
	if heldByHook >= 0 {
		return heldByHook
	}
	return len(q.GetMessages())
}

// setNextIndex: start a queue as if it had already seen very many additions, if the implementation
// exposes its addition counter
func setNextIndex(q *circularQueue.CircularQueue, v int) bool {
	f := reflect.ValueOf(q).Elem().FieldByName("NextIndex")
	if !f.IsValid() || !f.CanSet() || f.Kind() != reflect.Int {
		return false
	}
	f.SetInt(int64(v))
	return true
}

// qmsg: a message with every field set (a queue of messages holds messages, not just their numbers).  The number of
// the addition is carried by RawData, Timestamp and the texts; the message TYPE is what the proxy really queues: runs of
// other data (-1) between RTCM messages of the usual types, so consecutive additions often have the same type
var qTypes = []int{-1, -1, 1005, -1, -1, -1, 1077, 1074, -1, 1230, 1077, 1077, -1, -1, 4072, 1006}

func qmsg(id int) handler.Message {
	lv := []slog.Level{slog.LevelDebug, slog.LevelInfo, slog.LevelWarn}[id%3]
	return handler.Message{MessageType: qTypes[id%len(qTypes)], RawData: []byte{byte(id >> 24), byte(id >> 16), byte(id >> 8), byte(id)},
		Timestamp: uint(id)*7 + 1, SentAt: fmt.Sprint("Time ", id), StartOfWeek: fmt.Sprint("Start of week ", id),
		ErrorMessage: []string{"", "e"}[id%2], LogLevel: lv, Readable: fmt.Sprint("readable ", id)}
}

// ids: the numbers of the messages of a snapshot; a message that is not exactly the one that was added under
// that number counts as a different message (its number negated, which no addition ever had)
func ids(ms []handler.Message) []int {
	r := make([]int, len(ms))
	for i, m := range ms {
		id := -7
		if len(m.RawData) >= 4 {
			id = int(m.RawData[0])<<24 | int(m.RawData[1])<<16 | int(m.RawData[2])<<8 | int(m.RawData[3])
		}
		r[i] = id
		if id < 0 || !reflect.DeepEqual(m, qmsg(id)) {
			r[i] = -id - 1000000000
		}
	}
	return r
}

func emitQ(w *tr.Writer, e qEv) {
	if e.Res == nil && (e.Ev == "get" || e.Ev == "gret") {
		e.Res = []int{}
	}
	// encode explicitly so that empty results are [] and zero lengths are present
	m := map[string]interface{}{"ev": e.Ev}
	switch e.Ev {
	case "new", "cnew":
		m["n"] = e.N
	case "add":
		m["id"], m["len"] = e.ID, e.Len
	case "addn":
		m["from"], m["to"], m["len"] = e.From, e.To, e.Len
	case "get":
		m["res"], m["len"] = e.Res, e.Len
	case "stuck":
		m["n"] = e.N
	case "still":
		if e.Was == nil {
			e.Was = []int{}
		}
		if e.Res == nil {
			e.Res = []int{}
		}
		m["was"], m["now"] = e.Was, e.Res
	case "acall", "aret":
		m["id"], m["stamp"] = e.ID, e.Stamp
	case "alin":
		m["id"], m["idx"], m["stamp"] = e.ID, e.Idx, e.Stamp
	case "gcall":
		m["g"], m["stamp"] = e.G, e.Stamp
	case "gret":
		m["g"], m["res"], m["stamp"] = e.G, e.Res, e.Stamp
	}
	w.Emit(m)
}

func c18(args []string) {
	w := tr.NewWriter(args[0])
	defer w.Close()
	rng := tr.Rand(18)
	thorough := tr.Thorough()

	concOnly := len(args) > 1 && args[1] == "conc" // a second pass in a build without the race detector (other interleavings)
	// 1. every Add/Get sequence of length L for capacities 1..8 (exhaustive to the bound)
	for n := 1; n <= 8 && !concOnly; n++ {
		L := 9
		if thorough {
			L = 11
			if n <= 4 {
				L = 12
			}
		}
		for bits := 0; bits < 1<<uint(L); bits++ {
			q := circularQueue.NewCircularQueue(n)
			watchHeld()
			emitQ(w, qEv{Ev: "new", N: n})
			id := 0
			var snap []handler.Message // the latest snapshot, re-read after the next addition
			var snapIDs []int
			for i := 0; i < L; i++ {
				if bits>>uint(i)&1 == 1 {
					id++
					q.Add(qmsg(id))
					emitQ(w, qEv{Ev: "add", ID: id, Len: held(q)})
					if snap != nil {
						emitQ(w, qEv{Ev: "still", Was: snapIDs, Res: ids(snap)})
						snap = nil
					}
				} else {
					r := q.GetMessages()
					emitQ(w, qEv{Ev: "get", Res: ids(r), Len: len(r)})
					snap, snapIDs = r, ids(r)
				}
			}
		}
	}
	// 2. long runs far beyond the capacity
	for _, n := range []int{1, 2, 3, 8, 20} {
		if concOnly {
			break
		}
		q := circularQueue.NewCircularQueue(n)
		watchHeld()
		emitQ(w, qEv{Ev: "new", N: n})
		var snap []handler.Message
		var snapIDs []int
		total := 70000 // beyond 2^16 additions
		if thorough {
			total = 140000 // beyond 2^17
		}
		id := 0
		for id < total {
			k := 1 + rng.Intn(150)
			from := id + 1
			for j := 0; j < k; j++ {
				id++
				q.Add(qmsg(id))
			}
			h := held(q)
			emitQ(w, qEv{Ev: "addn", From: from, To: id, Len: h})
			if h > 4*n+8 {
				break // the queue grows without bound (already reported by the length): going on would only take for ever
			}
			if snap != nil {
				emitQ(w, qEv{Ev: "still", Was: snapIDs, Res: ids(snap)})
			}
			r := q.GetMessages()
			emitQ(w, qEv{Ev: "get", Res: ids(r), Len: len(r)})
			snap, snapIDs = r, ids(r)
		}
	}
	// 2a. capacities far above the proxy's 20 (the capacity is the constructor's argument, whatever it is): filled to
	// just below, exactly to, and beyond the capacity
	for _, n := range []int{257, 1001, 1500, 4097} {
		if concOnly || (!thorough && n == 1500) {
			continue
		}
		q := circularQueue.NewCircularQueue(n)
		watchHeld()
		emitQ(w, qEv{Ev: "new", N: n})
		id := 0
		for _, upTo := range []int{n - 1, n, n + 1, n + 130} {
			from := id + 1
			for id < upTo {
				id++
				q.Add(qmsg(id))
			}
			emitQ(w, qEv{Ev: "addn", From: from, To: id, Len: held(q)})
			r := q.GetMessages()
			emitQ(w, qEv{Ev: "get", Res: ids(r), Len: len(r)})
		}
	}
	// 2b. queues that have already seen very many additions (the exported index starts near a power of two)
	for _, start64 := range []int64{1<<16 - 3, 1<<15 - 2, 1<<31 - 3, 1<<32 - 3} {
		start := int(start64)
		if int64(start) != start64 {
			continue // (a 32-bit build)
		}
		if concOnly {
			break
		}
		for _, n := range []int{1, 2, 3, 8} {
			q := circularQueue.NewCircularQueue(n)
			if !setNextIndex(q, start) {
				continue
			}
			watchHeld()
			emitQ(w, qEv{Ev: "new", N: n})
			id := 0
			var snap []handler.Message
			var snapIDs []int
			for step := 0; step < 14; step++ {
				id++
				q.Add(qmsg(id))
				emitQ(w, qEv{Ev: "add", ID: id, Len: held(q)})
				if snap != nil {
					emitQ(w, qEv{Ev: "still", Was: snapIDs, Res: ids(snap)})
				}
				r := q.GetMessages()
				emitQ(w, qEv{Ev: "get", Res: ids(r), Len: len(r)})
				snap, snapIDs = r, ids(r)
			}
		}
	}
	// 3. concurrent adders and snapshot readers (race detector on in the check)
	rounds := 12
	if thorough {
		rounds = 120
	}
	for r := 0; r < rounds; r++ {
		n := []int{1, 2, 3, 5, 8, 20}[r%6]
		nadd, nget := 1+r%3, 1+(r/3)%3
		per := 40 + rng.Intn(80)
		q := circularQueue.NewCircularQueue(n)
		var stamp int64
		var mu sync.Mutex
		var evs []qEv
		rec := func(e qEv) {
			mu.Lock()
			evs = append(evs, e)
			mu.Unlock()
		}
		var cur sync.Map // goroutine -> id of the addition it is making
		verifhook.Handler = func(point string, kv ...int) {
			if point == "cq.add.locked" && len(kv) > 1 {
				// under the write lock, right after the insertion; the hook runs in the adder's goroutine
				if id, ok := cur.Load(goid()); ok {
					rec(qEv{Ev: "alin", ID: id.(int), Idx: kv[1], Stamp: atomic.AddInt64(&stamp, 1)})
				}
			}
		}
		var wg sync.WaitGroup
		for a := 0; a < nadd; a++ {
			wg.Add(1)
			go func(a int) {
				defer wg.Done()
				for i := 1; i <= per; i++ {
					id := (a+1)*100000 + i
					cur.Store(goid(), id)
					rec(qEv{Ev: "acall", ID: id, Stamp: atomic.AddInt64(&stamp, 1)})
					q.Add(qmsg(id))
					rec(qEv{Ev: "aret", ID: id, Stamp: atomic.AddInt64(&stamp, 1)})
				}
			}(a)
		}
		for g := 0; g < nget; g++ {
			wg.Add(1)
			go func(g int) {
				defer wg.Done()
				for i := 0; i < per; i++ {
					gid := (g+1)*1000 + i
					rec(qEv{Ev: "gcall", G: gid, Stamp: atomic.AddInt64(&stamp, 1)})
					res := q.GetMessages()
					was := ids(res)
					rec(qEv{Ev: "gret", G: gid, Res: was, Stamp: atomic.AddInt64(&stamp, 1)})
					runtime.Gosched()
					// a snapshot stays what it was while additions go on
					rec(qEv{Ev: "still", Was: was, Res: ids(res), Stamp: atomic.AddInt64(&stamp, 1)})
				}
			}(g)
		}
		// every call returns: if the adders and readers have not all finished after 20 s the queue has locked up
		finished := make(chan struct{})
		go func() { wg.Wait(); close(finished) }()
		stuck := false
		select {
		case <-finished:
		case <-time.After(20 * time.Second):
			stuck = true
		}
		verifhook.Handler = nil
		mu.Lock()
		sort.Slice(evs, func(i, j int) bool { return evs[i].Stamp < evs[j].Stamp })
		emitQ(w, qEv{Ev: "cnew", N: n})
		for _, e := range evs {
			emitQ(w, e)
		}
		mu.Unlock()
		if stuck {
			// the blocked goroutines cannot be recovered: report and stop here
			emitQ(w, qEv{Ev: "stuck", N: n})
			return
		}
	}
}
