package main

import (
	"fmt"
	"log/slog"
	"math/rand"
	"runtime"
	"time"

	"github.com/goblimey/go-ntrip/rtcm/handler"
	"verifharness/internal/gen"
	"verifharness/internal/tr"
)

// Framer family (C01, C02, C03, C12): feed byte streams to the real
// handler.HandleMessages over real channels and record what comes out.
func init() { commands["framer"] = framer }

type evReset struct {
	Ev     string   `json:"ev"`
	In     []int    `json:"in"`
	Cls    string   `json:"cls"`
	InCap  int      `json:"in_cap"`
	OutCap int      `json:"out_cap"`
	RefAux []string `json:"ref_aux"` // C12: what the handler derived for each segment of the uncorrupted stream
	VStart int      `json:"vstart"`  // C12: byte range of the victim frame
	VEnd   int      `json:"vend"`
}
type evMsg struct {
	Ev   string `json:"ev"`
	Type int    `json:"type"`
	Raw  []int  `json:"raw"`
	Aux  string `json:"aux"` // everything else the handler attached to the message (timestamp, times, error text)
}

func auxOf(m *handler.Message) string {
	return fmt.Sprintf("%d|%s|%s|%s", m.Timestamp, m.SentAt, m.StartOfWeek, m.ErrorMessage)
}

// refAux runs a stream through a fresh handler and returns the aux value of every TYPED message, in order.
// For C12 it is given the stream WITHOUT the victim frame: a frame rejected for its CRC must leave no trace in the
// handler, so the typed neighbours must get exactly what they get when the victim is not there at all.  (Comparing with
// the uncorrupted stream would be wrong: a valid MSM victim legitimately moves the handler's time state.)
func refAux(in []byte) []string {
	chIn := make(chan byte, len(in)+1)
	for _, b := range in {
		chIn <- b
	}
	close(chIn)
	chOut := make(chan handler.Message, 8)
	h := handler.New(framerStart, slog.LevelDebug)
	go func() { tr.Recover(func() { h.HandleMessages(chIn, chOut) }) }()
	r := []string{}
	deadline := time.After(20 * time.Second)
	for {
		select {
		case m, ok := <-chOut:
			if !ok {
				return r
			}
			mm := m
			if mm.MessageType >= 0 {
				r = append(r, auxOf(&mm))
			}
		case <-deadline:
			return r
		}
	}
}

var pendingRef []string
var pendingV [2]int

// timing knobs for the next runStream call: the producer pauses before sending byte number pauseAt (0-based),
// the consumer stops receiving for stallFor after its first message
var pauseAt = -1
var pauseFor time.Duration
var stallFor time.Duration
type evClose struct {
	Ev string `json:"ev"`
}
type evEnd struct {
	Ev      string `json:"ev"`
	Closes  int    `json:"closes"`
	Panic   string `json:"panic"`
	Timeout bool   `json:"timeout"`
}
type evGetMessage struct {
	Ev     string `json:"ev"`
	Buf    []int  `json:"buf"`
	Cls    string `json:"cls"`
	NilMsg bool   `json:"nilmsg"`
	Type   int    `json:"type"`
	Raw    []int  `json:"raw"`
	Err    string `json:"err"`
	Panic  string `json:"panic"`
}

var framerStart = time.Date(2023, 5, 10, 12, 0, 0, 0, time.UTC)

// runStream feeds in to a fresh handler and records the delivered messages.
// pace: 0 none, 1 producer yields, 2 consumer yields, 3 both + tiny sleeps.
// forceInCap / forcePrefill: the next stream uses this input channel capacity, filled before the framer starts
var forceInCap = -1
var forcePrefill = false
var forceReuse = false
var lastHandler *handler.Handler
var streamNo = 0

func runStream(w *tr.Writer, in []byte, cls string, inCap, outCap, pace int, grng *rand.Rand) {
	prefill := false
	if forceInCap >= 0 {
		inCap, prefill = forceInCap, forcePrefill
		forceInCap, forcePrefill = -1, false
	}
	// pacing draws come from a generator of their own: how many are made depends on timing, and the stream
	// generator must produce the same cases for the same seed
	rng := rand.New(rand.NewSource(grng.Int63()))
	ra := pendingRef
	if ra == nil {
		ra = []string{}
	}
	// history: every third stream without a derived-field reference (and every stream after forceReuse) is fed to the
	// handler that framed the PREVIOUS stream - a handler is a long-lived object (the proxy keeps one for its whole life);
	// what the earlier stream was, and where it ended, must not matter to the segmentation of this one
	streamNo++
	var h *handler.Handler
	if len(ra) == 0 && lastHandler != nil && (forceReuse || streamNo%3 == 2) {
		h = lastHandler
		cls += " +handler of the previous stream"
	} else {
		// the handler's log level is configuration: framing and the CRC check must not depend on it (levels other than
		// Debug and Info included); streams with a derived-field reference keep the reference's level
		lv := slog.LevelDebug
		if len(ra) == 0 {
			lv = framerLevels[streamNo%len(framerLevels)]
		}
		h = handler.New(framerStart, lv)
	}
	forceReuse = false
	lastHandler = nil
	w.Emit(evReset{"reset", tr.Ints(in), cls, inCap, outCap, ra, pendingV[0], pendingV[1]})
	pendingRef, pendingV = nil, [2]int{0, 0}
	chIn := make(chan byte, inCap)
	chOut := make(chan handler.Message, outCap)
	hdone := make(chan string, 1)
	fed := 0
	if prefill {
		for fed < len(in) && fed < inCap {
			chIn <- in[fed]
			fed++
		}
	}
	go func() {
		hdone <- tr.Recover(func() { h.HandleMessages(chIn, chOut) })
	}()
	pAt, pFor, sFor := pauseAt, pauseFor, stallFor
	pauseAt, pauseFor, stallFor = -1, 0, 0
	go func() {
		for i, b := range in {
			if i < fed {
				continue
			}
			if i == pAt {
				time.Sleep(pFor)
			}
			chIn <- b
			if pace&1 != 0 && i%7 == 0 {
				runtime.Gosched()
			}
		}
		close(chIn)
	}()
	end := evEnd{Ev: "end"}
	deadline := time.After(30 * time.Second)
loop:
	for {
		select {
		case m, ok := <-chOut:
			if !ok {
				w.Emit(evClose{"close"})
				end.Closes++
				break loop
			}
			mm := m
			w.Emit(evMsg{"msg", m.MessageType, tr.Ints(m.RawData), auxOf(&mm)})
			if sFor > 0 {
				time.Sleep(sFor) // the consumer stalls once, while the producer keeps feeding
				sFor = 0
			}
			if pace&2 != 0 {
				runtime.Gosched()
				if pace == 3 && rng.Intn(4) == 0 {
					time.Sleep(time.Duration(rng.Intn(200)) * time.Microsecond)
				}
			}
		case p := <-hdone:
			// HandleMessages returned (or panicked) - drain what is buffered, then judge.
			hdone <- p
			for {
				select {
				case m, ok := <-chOut:
					if !ok {
						w.Emit(evClose{"close"})
						end.Closes++
						break loop
					}
					mm := m
			w.Emit(evMsg{"msg", m.MessageType, tr.Ints(m.RawData), auxOf(&mm)})
					continue
				default:
				}
				break
			}
			if p != "" {
				end.Panic = p
			}
			break loop
		case <-deadline:
			end.Timeout = true
			break loop
		}
	}
	// wait for the handler goroutine (bounded) so that a second close shows up as a panic
	select {
	case p := <-hdone:
		if p == "" && !end.Timeout {
			lastHandler = h // its call has returned: the next stream may be given to it
		}
		if p != "" {
			end.Panic = p
			if len(p) > 0 && containsClose(p) {
				end.Closes++
			}
		}
	case <-time.After(5 * time.Second):
		if !end.Timeout && end.Panic == "" {
			end.Timeout = true
		}
	}
	w.Emit(end)
}

// startShadow: a SECOND handler of the same process frames streams of its own (other data with a few frames in it) for as
// long as the traced stream runs.  Handlers are independent objects: what another one is doing must not show in the traced
// one's messages (nothing of the shadow's is judged; a panic in it ends the driver, which the checks report).
func startShadow(seed int64) func() {
	stop, done := make(chan struct{}), make(chan struct{})
	go func() {
		defer close(done)
		r := rand.New(rand.NewSource(seed))
		for {
			select {
			case <-stop:
				return
			default:
			}
			h := handler.New(framerStart, slog.LevelInfo)
			in, out := make(chan byte, 64), make(chan handler.Message, 64)
			go h.HandleMessages(in, out)
			data := gen.Cat(gen.Junk(r, 100+r.Intn(900), 2), gen.Frame(r, 1005, 19, 0), gen.Junk(r, 50+r.Intn(300), 2), []byte{0xd3, 0x55})
			go func() {
				for _, b := range data {
					in <- b
				}
				close(in)
			}()
			for range out {
			}
		}
	}()
	return func() { close(stop); <-done }
}

// blankRuns: other data made only of white space (line breaks after every frame, as a logger or a caster adds them, blanks,
// tabs, form feed, the UTF-8 non-breaking space and next-line characters) between, before and after frames: data like any other
func blankRuns(rng *rand.Rand, run func([]byte, string)) {
	for _, ws := range [][]byte{[]byte("\r\n"), []byte("\n"), []byte(" "), []byte("\t\t"), []byte("  \r\n \x0b\x0c"), {0xc2, 0xa0}, {0xc2, 0x85}, {0x00}, {0x00, 0x00, 0x00}} {
		f1, f2, f3 := gen.Frame(rng, 1005, 19, 0), gen.Frame(rng, 1077, 24, 0), gen.Frame(rng, 1230, 8, 0)
		run(gen.Cat(f1, ws, f2, ws, f3), fmt.Sprintf("blank run %x after every frame but the last", ws))
		run(gen.Cat(ws, f1, f2, ws), fmt.Sprintf("blank run %x first and last", ws))
	}
	// other data that ends with bytes above 0x7f (binary protocols, broken UTF-8) directly in front of a frame
	for _, tail := range [][]byte{{0xff}, {0x9c}, {0xb5, 0x62, 0x01, 0xff, 0xfe}, {0xef, 0xbf, 0xbd}, {0x41, 0xe2, 0x82}, {0x80, 0x80, 0x80}} {
		run(gen.Cat(gen.Frame(rng, 1005, 19, 0), []byte("$GN"), tail, gen.Frame(rng, 1074, 12, 0), tail, gen.Frame(rng, 1230, 8, 0)), fmt.Sprintf("other data ending in %x before a frame", tail))
	}
}

// longStall: the consumer takes the first message and then nothing for longer than any plausible internal time-out
// (5.5 s, 12 s in the thorough tier) while the framer is offering the next one: every message still arrives, in order
func longStall(rng *rand.Rand, run func([]byte, string), scale int) {
	s := gen.Cat(gen.Junk(rng, 12, 0), gen.Frame(rng, 1005, 19, 0), gen.Frame(rng, 1230, 8, 0), gen.Junk(rng, 9, 0),
		gen.Frame(rng, 4072, 30, 0), gen.Frame(rng, 1077, 40, 0), gen.Frame(rng, 1006, 21, 0)[:17])
	stallFor = 5500 * time.Millisecond
	if scale > 1 {
		stallFor = 12 * time.Second
	}
	run(s, "consumer-stall of several seconds")
}

func containsClose(p string) bool {
	return len(p) >= 5 && (p == "close of closed channel" || p == "send on closed channel")
}

var framerLevels = []slog.Level{slog.LevelDebug, slog.LevelInfo, slog.LevelWarn, slog.LevelDebug, slog.LevelError, slog.Level(-8), slog.Level(2)}
var getMessageNo = 0

func getMessage(w *tr.Writer, buf []byte, cls string) {
	getMessageNo++
	getMessageOn(w, handler.New(framerStart, framerLevels[getMessageNo%len(framerLevels)]), buf, cls)
}

// getMessageOn: GetMessage on a handler that may already have seen other frames (the verdict on one
// buffer must not depend on what the handler was given before)
func getMessageOn(w *tr.Writer, h *handler.Handler, buf []byte, cls string) {
	ev := evGetMessage{Ev: "getmessage", Buf: tr.Ints(buf), Cls: cls, Raw: []int{}}
	ev.Panic = tr.Recover(func() {
		m, err := h.GetMessage(buf)
		if err != nil {
			ev.Err = err.Error()
			if ev.Err == "" {
				ev.Err = "error"
			}
		}
		if m == nil {
			ev.NilMsg = true
			return
		}
		ev.Type = m.MessageType
		ev.Raw = tr.Ints(m.RawData)
	})
	w.Emit(ev)
}

// ---------------------------------------------------------------- case builders

func wellStructured(rng *rand.Rand, nseg int, maxPlen int, typeBase int) []byte {
	var s []byte
	lastJunk := false
	for i := 0; i < nseg; i++ {
		if rng.Intn(3) == 0 && !lastJunk {
			s = append(s, gen.Junk(rng, 1+rng.Intn(40), rng.Intn(3))...)
			lastJunk = true
			continue
		}
		lastJunk = false
		plen := 1 + rng.Intn(maxPlen)
		s = append(s, gen.Frame(rng, gen.TypeClass(rng, typeBase+i), plen, rng.Intn(3))...)
	}
	return s
}

func caps(rng *rand.Rand, n int) (int, int) {
	ins := []int{0, 1, 8, n + 1}
	outs := []int{0, 1, 4}
	return ins[rng.Intn(len(ins))], outs[rng.Intn(len(outs))]
}

func framer(args []string) {
	mode := args[0]
	w := tr.NewWriter(args[1])
	defer w.Close()
	thorough := tr.Thorough()
	rng := tr.Rand(int64(len(mode)) + int64(mode[2])*7)
	run := func(in []byte, cls string) {
		ic, oc := caps(rng, len(in))
		runStream(w, in, cls, ic, oc, rng.Intn(4), rng)
	}
	scale := 1
	if thorough {
		scale = 8
	}

	switch mode {
	case "c03", "c12":
		corrupt := mode == "c12"
		victimize := func(s []byte, frames [][2]int, k int, cls string) {
			if !corrupt || len(frames) == 0 {
				run(s, cls)
				return
			}
			v := frames[rng.Intn(len(frames))]
			c, what := gen.Corrupt(rng, s[v[0]:v[1]], k)
			t := append(append(append([]byte{}, s[:v[0]]...), c...), s[v[1]:]...)
			pendingRef, pendingV = refAux(gen.Cat(s[:v[0]], s[v[1]:])), [2]int{v[0], v[1]}
			run(t, cls+" victim@"+fmt.Sprint(v[0])+" "+what)
		}
		// every payload length (thorough) / boundaries + sample (quick), every type class
		for i, plen := range gen.Lens(rng, thorough, 12) {
			typ := gen.TypeClass(rng, i)
			f := gen.Frame(rng, typ, plen, i%3)
			pre := gen.Junk(rng, rng.Intn(6), i%3)
			g := gen.Frame(rng, gen.TypeClass(rng, i+5), 1+rng.Intn(12), 0)
			s := gen.Cat(pre, f, g)
			victimize(s, [][2]int{{len(pre), len(pre) + len(f)}, {len(pre) + len(f), len(s)}}, i, fmt.Sprintf("len%d type%d", plen, typ))
		}
		// the start byte value at every early position of a frame (length byte, type bytes, first payload bytes)
		for pos := 2; pos <= 9; pos++ {
			for hi := 0; hi < 4; hi++ {
				if pos != 2 && hi > 0 && !thorough {
					continue
				}
				f := gen.FrameWithStartByteAt(rng, pos, hi)
				pre, post := gen.Junk(rng, hi, 1), gen.Frame(rng, 1005, 19, 0)
				s := gen.Cat(pre, f, post)
				victimize(s, [][2]int{{len(pre), len(pre) + len(f)}}, pos+hi, fmt.Sprintf("d3@%d", pos))
			}
		}
		// all 14 MSM types and 1005/1006 with short payloads 1..12
		for _, typ := range append(append([]int{}, gen.MSMTypes...), 1005, 1006) {
			for plen := 1; plen <= 12; plen++ {
				if !thorough && plen > 4 && (plen+typ)%3 != 0 {
					continue
				}
				f := gen.Frame(rng, typ, plen, 0)
				s := gen.Cat(gen.Junk(rng, 2, 1), f, gen.Junk(rng, 3, 0))
				victimize(s, [][2]int{{2, 2 + len(f)}}, plen, fmt.Sprintf("short type%d len%d", typ, plen))
			}
		}
		// back-to-back frames, payloads full of 0xD3, CRC containing 0xD3
		for i := 0; i < 6*scale; i++ {
			var s []byte
			var fr [][2]int
			for k := 0; k < 2+rng.Intn(5); k++ {
				var f []byte
				switch rng.Intn(3) {
				case 0:
					f = gen.Frame(rng, gen.TypeClass(rng, i+k), 1+rng.Intn(60), 2)
				case 1:
					f = gen.FrameWithCRCByte(rng, gen.TypeClass(rng, i+k), 4+rng.Intn(20), 0xd3)
				}
				if f == nil {
					f = gen.Frame(rng, gen.TypeClass(rng, i+k), 1+rng.Intn(30), 0)
				}
				fr = append(fr, [2]int{len(s), len(s) + len(f)})
				s = append(s, f...)
			}
			victimize(s, fr, i, "back-to-back d3-rich")
		}
		// junk of every small length between frames; junk styles
		for n := 1; n <= 8*scale; n++ {
			a := gen.Frame(rng, gen.TypeClass(rng, n), 1+rng.Intn(20), 0)
			b := gen.Frame(rng, gen.TypeClass(rng, n+3), 1+rng.Intn(20), 0)
			j1, j2 := gen.Junk(rng, n, n%3), gen.Junk(rng, 1+rng.Intn(50), (n+1)%3)
			s := gen.Cat(j1, a, j2, b, gen.Junk(rng, rng.Intn(4), 0))
			victimize(s, [][2]int{{len(j1), len(j1) + len(a)}, {len(j1) + len(a) + len(j2), len(j1) + len(a) + len(j2) + len(b)}}, n, fmt.Sprintf("junk%d", n))
		}
		// the same frame several times in a row, and again after other data: each occurrence is a message
		for k := 0; k < 2*scale; k++ {
			f := gen.Frame(rng, gen.TypeClass(rng, k+3), 1+rng.Intn(40), k%3)
			g := gen.Frame(rng, 1005, 19, 0)
			s := gen.Cat(f, f, f, gen.Junk(rng, 4, 1), f, g, g)
			victimize(s, [][2]int{{len(f), 2 * len(f)}, {3*len(f) + 4, 4*len(f) + 4}}, k, "identical frames repeated")
		}
		// long runs of other data in front of a frame, lengths around the powers of two (anything that limits or
		// chunks a run internally has its off-by-one at one of these)
		if !corrupt {
			longs := []int{255, 256, 257, 1023, 1024, 1025, 4095, 4096, 4097, 8191, 8192}
			if thorough {
				longs = append(longs, 2047, 2048, 2049, 8193, 16383, 16384, 16385, 32767, 32768, 65535, 65536, 65537)
			}
			for _, L := range longs {
				a := gen.Frame(rng, gen.TypeClass(rng, L), 1+rng.Intn(30), 0)
				b := gen.Frame(rng, 1230, 6, 0)
				run(gen.Cat(gen.Junk(rng, L, L%3), a, b), fmt.Sprintf("junk%d then frames", L))
			}
		}
		// the stream ENDS with a run of other data of exactly 1, 2, 3 bytes (after a frame, after a CRC failure, alone)
		for n := 1; n <= 3; n++ {
			a := gen.Frame(rng, gen.TypeClass(rng, n), 1+rng.Intn(20), 0)
			b := gen.Frame(rng, gen.TypeClass(rng, n+4), 1+rng.Intn(20), 2)
			s := gen.Cat(a, gen.Junk(rng, 2, 1), b, gen.Junk(rng, n, n%3))
			victimize(s, [][2]int{{0, len(a)}, {len(a) + 2, len(a) + 2 + len(b)}}, 4+n, fmt.Sprintf("ends with junk%d", n))
			if !corrupt {
				run(gen.Junk(rng, n, (n+1)%3), fmt.Sprintf("only junk%d", n))
			}
		}
		// the victim is a repeat of an earlier valid frame, damaged in the payload only (same type, length, CRC bytes)
		if corrupt {
			for k := 0; k < 3*scale; k++ {
				typ := []int{1005, 1230, 1006, 4072, 1019}[k%5]
				f := gen.Frame(rng, typ, 8+rng.Intn(30), 0)
				d := append([]byte{}, f...)
				i := 5 + rng.Intn(len(f)-8)
				d[i] ^= byte(1 << uint(rng.Intn(8)))
				pre := gen.Cat(f, gen.Junk(rng, []int{0, 3, 1}[k%3], 1))
				post := gen.Cat(gen.Frame(rng, 1230, 6, 0), f)
				pendingRef, pendingV = refAux(gen.Cat(pre, post)), [2]int{len(pre), len(pre) + len(d)}
				run(gen.Cat(pre, d, post), "victim is a damaged twin of an earlier frame")
			}
		}
		// junk runs of exactly 0..4 bytes around a frame (the victim in C12)
		for n1 := 0; n1 <= 4; n1++ {
			for n2 := 0; n2 <= 4; n2++ {
				if !thorough && (n1+n2+int(tr.Seed()))%3 != 0 && n1 != 1 && n2 != 1 {
					continue
				}
				a := gen.Frame(rng, gen.TypeClass(rng, n1), 1+rng.Intn(20), 0)
				v := gen.Frame(rng, gen.TypeClass(rng, n2+3), 1+rng.Intn(20), 0)
				b := gen.Frame(rng, gen.TypeClass(rng, n1+n2), 1+rng.Intn(20), 0)
				j1, j2 := gen.Junk(rng, n1, (n1+n2)%3), gen.Junk(rng, n2, n1%3)
				s := gen.Cat(a, j1, v, j2, b)
				victimize(s, [][2]int{{len(a) + n1, len(a) + n1 + len(v)}}, 4+n1, fmt.Sprintf("junk%d-frame-junk%d", n1, n2)) // kind 4..: a CRC byte altered
			}
		}
		// the producer goes quiet for 0.6 s at a chosen byte: after the first byte of a junk run, inside a leader, inside a payload, before a CRC
		{
			a := gen.Frame(rng, 1005, 19, 0)
			j := gen.Junk(rng, 3, 1)
			b := gen.Frame(rng, 1006, 21, 0)
			c2 := gen.Frame(rng, 1230, 4, 0)
			s := gen.Cat(a, j, b, c2)
			at := []int{len(a) + 1, len(a) + 2, len(a), len(a) + len(j) + 1, len(a) + len(j) + 2, len(a) + len(j) + 10, len(s) - 3, 1, 4}
			if !thorough {
				at = at[:5]
			}
			for _, p := range at {
				pauseAt, pauseFor = p, 600*time.Millisecond
				if corrupt {
					c, what := gen.Corrupt(rng, b, 4)
					pendingRef, pendingV = refAux(gen.Cat(a, j, c2)), [2]int{len(a) + len(j), len(a) + len(j) + len(b)}
					run(gen.Cat(a, j, c, c2), fmt.Sprintf("pause@%d %s", p, what))
				} else {
					run(s, fmt.Sprintf("pause@%d", p))
				}
			}
		}
		// the stream ends inside a frame whose payload holds a complete valid smaller frame (and a start byte after it):
		// cut before, inside and after the inner frame - the tail is one piece of other data, whatever it contains
		for k := 0; k < 2*scale; k++ {
			inner := gen.Frame(rng, []int{1007, 1230, 1033}[k%3], 2+rng.Intn(6), 0)
			pl := gen.Cat([]byte{0x40, 0x90, 0x00}, gen.Junk(rng, 1+rng.Intn(3), 0), inner, gen.Junk(rng, 2, 1), []byte{0xd3, 0x00}, gen.Junk(rng, 6, 0))
			outer := tr.Frame(pl)
			head := gen.Cat(gen.Frame(rng, 1005, 19, 0), gen.Junk(rng, k%2*3, 1))
			at := 0
			for i := 0; i+len(inner) <= len(outer); i++ {
				if string(outer[i:i+len(inner)]) == string(inner) {
					at = i
					break
				}
			}
			for _, cut := range []int{at + 2, at + len(inner) - 1, at + len(inner), at + len(inner) + 1, at + len(inner) + 3, at + len(inner) + 5, len(outer) - 1} {
				if cut <= 0 || cut >= len(outer) {
					continue
				}
				s := gen.Cat(head, outer[:cut])
				victimize(s, nil, cut, fmt.Sprintf("tail holding a frame, cut %d/%d", cut, len(outer)))
			}
		}
		// truncation of the last frame at every byte
		for i := 0; i < 1*scale; i++ {
			head := gen.Cat(gen.Junk(rng, rng.Intn(5), 1), gen.Frame(rng, gen.TypeClass(rng, i), 1+rng.Intn(9), 0))
			last := gen.Frame(rng, gen.TypeClass(rng, i+1), 1+rng.Intn(14), 2)
			for cut := 1; cut < len(last); cut++ {
				s := gen.Cat(head, last[:cut])
				victimize(s, [][2]int{{len(head) - 0, len(head)}}[:0], cut, fmt.Sprintf("trunc%d/%d", cut, len(last)))
			}
		}
		// seeded random well-structured streams
		for i := 0; i < 25*scale; i++ {
			s := wellStructured(rng, 2+rng.Intn(8), 80, i)
			if corrupt {
				// find frames by construction is awkward here: corrupt a whole-frame stream instead
				f := gen.Frame(rng, gen.TypeClass(rng, i), 1+rng.Intn(64), 0)
				pre := wellStructured(rng, rng.Intn(4), 40, i)
				post := wellStructured(rng, rng.Intn(4), 40, i+2)
				// a junk run directly before or after the victim keeps neighbours observable
				s = gen.Cat(pre, f, post)
				victimize(s, [][2]int{{len(pre), len(pre) + len(f)}}, i, "random ws")
				continue
			}
			run(s, "random ws")
		}
		if corrupt {
			// MSM frames of one constellation around a victim whose timestamp field (frame bytes 6-9) or type bits are damaged:
			// the neighbours must come out exactly as without the damage, including what the handler derives for them
			for i := 0; i < 6*scale; i++ {
				con := []int{1077, 1087, 1097, 1127, 1074, 1124}[i%6]
				mk := func(ts uint) []byte { return msmFrame(rng, con, ts) }
				base := uint(100000000 + rng.Intn(300000000))
				if con == 1087 {
					base = uint(2<<27 | rng.Intn(80000000))
				}
				a, v, b, c2 := mk(base), mk(base+1000), mk(base+2000), mk(base+3000)
				cv := append([]byte{}, v...)
				switch i % 3 {
				case 0:
					cv[6] ^= 0x20 // a high bit of the timestamp
				case 1:
					cv[7] ^= 0xff
				default:
					cv[6], cv[7], cv[8] = 0, 0, 1 // claims the start of the week
				}
				pendingRef, pendingV = refAux(gen.Cat(a, b, c2)), [2]int{len(a), len(a) + len(v)}
				run(gen.Cat(a, cv, b, c2), "msm-timestamp-damage")
			}
			// every single bit of a short frame's payload+CRC (thorough: several frames)
			for i := 0; i < 1*scale; i++ {
				f := gen.Frame(rng, gen.TypeClass(rng, i+2), 1+rng.Intn(6), 0)
				pre := gen.Frame(rng, 1005, 19, 0)
				post := gen.Cat(gen.Junk(rng, 3, 1), gen.Frame(rng, 1230, 8, 0))
				for bit := 24; bit < len(f)*8; bit++ {
					c := append([]byte{}, f...)
					c[bit/8] ^= 1 << uint(7-bit%8)
					pendingRef, pendingV = refAux(gen.Cat(pre, post)), [2]int{len(pre), len(pre) + len(f)}
					run(gen.Cat(pre, c, post), fmt.Sprintf("everybit %d", bit))
				}
			}
		}

		if !corrupt {
			longStall(rng, run, scale)
			blankRuns(rng, run)
		}

	case "c02":
		// two handlers at work at the same time: the traced stream (runs of other data of every length up to a few hundred
		// bytes around frames) while a shadow handler frames other data of its own
		for i := 0; i < 12*scale; i++ {
			stopShadow := startShadow(rng.Int63())
			s := gen.Cat(gen.Junk(rng, 1+rng.Intn(400), 1), gen.Frame(rng, gen.TypeClass(rng, i), 1+rng.Intn(40), 0),
				gen.Junk(rng, 1+rng.Intn(400), 0), gen.Frame(rng, 1006, 21, 0), gen.Junk(rng, 1+rng.Intn(60), 1))
			run(s, "a second handler frames another stream at the same time")
			stopShadow()
		}
		// every prefix of structured streams
		for i := 0; i < 2*scale; i++ {
			s := gen.Cat(gen.Junk(rng, 2, 1), gen.Frame(rng, gen.TypeClass(rng, i), 1+rng.Intn(6), 2),
				gen.Frame(rng, gen.TypeClass(rng, i+1), 2+rng.Intn(6), 0), gen.Junk(rng, 2, 0), []byte{0xd3})
			for cut := 0; cut <= len(s); cut++ {
				run(s[:cut], fmt.Sprintf("prefix%d/%d", cut, len(s)))
			}
		}
		// special streams
		for _, s := range [][]byte{{}, {0xd3}, {0xd3, 0xd3}, {0xd3, 0}, {0xd3, 0, 1}, {0xd3, 0, 1, 0x3e}, {0, 0xd3}, {0xd3, 0xff, 0xff, 0xff, 0xff, 0xff},
			{0xd3, 0, 0, 0, 0, 0, 0}, {1}, {1, 2}, {0xd3, 0xd3, 0xd3, 0xd3, 0xd3, 0xd3, 0xd3, 0xd3, 0xd3, 0xd3, 0xd3}} {
			for k := 0; k < 3; k++ {
				run(s, "special")
			}
		}
		// history: the same handler frames one stream after another; the first ends at each kind of place (on a frame
		// boundary, on a lone start byte, inside the leader, the payload, the CRC, after one byte of other data), the second
		// holds several frames and other data
		{
			fa := gen.Frame(rng, 1077, 20, 0)
			for _, endAt := range []int{len(fa), 1, 2, 3, 4, len(fa) / 2, len(fa) - 3, len(fa) - 2, len(fa) - 1} {
				for _, lead := range [][]byte{{}, gen.Frame(rng, 1005, 19, 0), {0x41}} {
					a := gen.Cat(lead, fa[:endAt])
					if endAt == len(fa) && len(lead) == 1 {
						a = gen.Cat(fa, lead) // ends with one byte of other data
					}
					b := gen.Cat(gen.Frame(rng, 1006, 21, 0), gen.Junk(rng, 3, 0), gen.Frame(rng, 1074, 12, 0), gen.Frame(rng, 1230, 8, 0), []byte{0xd3, 0x00})
					run(a, fmt.Sprintf("first of two streams on one handler, ends at %d of %d", endAt, len(fa)))
					forceReuse = true
					run(b, "second of two streams on one handler")
					forceReuse = true
					run(b, "third of three streams on one handler")
				}
			}
		}
		// every prefix of a frame whose payload holds a complete valid smaller frame, other data and a start byte
		for k := 0; k < 1*scale; k++ {
			inner := gen.Frame(rng, []int{1007, 1230}[k%2], 2+rng.Intn(4), 0)
			outer := tr.Frame(gen.Cat([]byte{0x40, 0x90, 0x00}, inner, gen.Junk(rng, 2, 1), []byte{0xd3, 0x00}, gen.Junk(rng, 4, 0)))
			head := gen.Frame(rng, 1005, 19, 0)
			for cut := 1; cut < len(outer); cut++ {
				run(gen.Cat(head, outer[:cut]), fmt.Sprintf("tail holding a frame, cut %d/%d", cut, len(outer)))
			}
		}
		// arbitrary garbage with embedded start bytes, all capacities
		for i := 0; i < 60*scale; i++ {
			run(gen.Garbage(rng, rng.Intn(300)), "garbage")
		}
		for i := 0; i < 30*scale; i++ {
			s := gen.Cat(wellStructured(rng, 1+rng.Intn(5), 120, i), gen.Garbage(rng, rng.Intn(40)), wellStructured(rng, rng.Intn(4), 60, i+1))
			run(s, "mixed")
		}
		for _, plen := range gen.Lens(rng, false, 4*scale) {
			f := gen.Frame(rng, gen.TypeClass(rng, plen), plen, 0)
			run(gen.Cat(f, f[:rng.Intn(len(f))]), fmt.Sprintf("len%d+tail", plen))
		}
		// tens of kilobytes, the whole stream (or a large part) waiting in a buffered input channel: capacity = length,
		// 16384, 1024 with a consumer that stalls - anything that reads ahead meets its limits here
		for k := 0; k < 3*scale; k++ {
			var s []byte
			want := []int{40000, 16384, 70000, 16385, 33000}[k%5]
			for len(s) < want-1100 {
				s = append(s, gen.Frame(rng, gen.TypeClass(rng, len(s)), 1+rng.Intn(1000), 0)...)
				if rng.Intn(4) == 0 {
					s = append(s, gen.Junk(rng, 1+rng.Intn(200), rng.Intn(3))...)
				}
			}
			if pad := want - len(s); pad >= 7 {
				s = append(s, gen.Frame(rng, 1019, pad-6, 0)...)
			} else {
				s = append(s, gen.Junk(rng, pad, 0)...)
			}
			forceInCap = []int{len(s), 16384, 1024}[k%3]
			forcePrefill = k%3 != 2
			if k%3 == 2 {
				stallFor = 150 * time.Millisecond
			}
			run(s, fmt.Sprintf("big%d incap%d", len(s), forceInCap))
		}
		// the consumer stops receiving for a while after its first message while 30-60 further messages arrive
		for k := 0; k < 3*scale; k++ {
			var s []byte
			for m := 0; m < 30+rng.Intn(30); m++ {
				s = append(s, gen.Frame(rng, gen.TypeClass(rng, m), 1+rng.Intn(10), 0)...)
				if m%9 == 4 {
					s = append(s, gen.Junk(rng, 1+rng.Intn(4), 1)...)
				}
			}
			stallFor = time.Duration(120+60*k) * time.Millisecond
			run(s, "consumer-stall")
		}
		longStall(rng, run, scale)
		blankRuns(rng, run)
		// the producer goes quiet for 0.6 s in the middle of the stream
		for k := 0; k < 2*scale; k++ {
			s := gen.Cat(gen.Frame(rng, 1005, 19, 0), gen.Junk(rng, 2, 1), gen.Frame(rng, 1077, 30, 0), []byte{0xd3, 0})
			pauseAt, pauseFor = []int{len(s) - 1, 26, 27, 30}[k%4], 600*time.Millisecond
			run(s, "producer-pause")
		}
		for pos := 2; pos <= 6; pos++ {
			f := gen.FrameWithStartByteAt(rng, pos, pos%4)
			run(gen.Cat(gen.Garbage(rng, rng.Intn(6)), f, f[:rng.Intn(len(f))]), fmt.Sprintf("d3@%d", pos))
		}

	case "c01":
		crcVariants := func(f []byte, cls string) {
			n := len(f)
			for k := 0; k < 3; k++ { // each CRC byte alone
				c := append([]byte{}, f...)
				c[n-1-k] ^= byte(1 << uint(rng.Intn(8)))
				run(gen.Cat(c, gen.Frame(rng, 1005, 19, 0)), cls+fmt.Sprintf(" crcbyte%d", k))
				getMessage(w, c, cls+fmt.Sprintf(" crcbyte%d", k))
			}
			c := append([]byte{}, f...)
			c[n-1] ^= 1
			c[n-2] ^= 0x80
			c[n-3] ^= 0x10
			run(c, cls+" crc3")
			getMessage(w, c, cls+" crc3")
		}
		// frames whose true CRC has a zero (or all-ones) byte, or two of them, at a chosen place, with the damage
		// confined to exactly those stored bytes: a comparison that drops leading/trailing zero bytes, compares
		// numerically after a lossy conversion, or stops at a zero byte accepts them
		for _, pos := range [][]int{{0}, {1}, {2}, {0, 1}, {1, 2}} {
			for _, val := range []byte{0x00, 0xff} {
				if len(pos) == 2 && val == 0xff && !thorough {
					continue
				}
				typ := []int{1005, 1230, 1077, 4072}[(len(pos)+pos[0])%4]
				f := gen.FrameWithCRCBytesEqual(rng, typ, 6+rng.Intn(12), pos, val)
				if f == nil {
					continue
				}
				cls := fmt.Sprintf("crc bytes %v = %#x", pos, val)
				run(gen.Cat(f, gen.Frame(rng, 1005, 19, 0)), cls+" valid")
				getMessage(w, f, cls+" valid")
				n := len(f)
				for k := 0; k < 4; k++ {
					c := append([]byte{}, f...)
					for _, p := range pos {
						c[n-3+p] ^= byte(1 + rng.Intn(255))
					}
					run(gen.Cat(c, gen.Frame(rng, 1005, 19, 0)), cls+" damaged there")
					getMessage(w, c, cls+" damaged there")
				}
			}
		}
		// the length field is 10 bits: a short frame's bytes under a leader whose HIGH length bits are set (CRC right for
		// the short reading, 0x55 filler behind it so that the long reading has its bytes and a wrong CRC) is not a frame
		for k, hi := range []byte{0x01, 0x02, 0x03} {
			typ := []int{1005, 1230, 4072}[k]
			f := gen.Frame(rng, typ, 5+rng.Intn(200), 0)
			c := append([]byte{}, f...)
			c[1] |= hi
			tr.FixCRC(c) // CRC over leader + the short payload
			filler := make([]byte, 1100)
			for i := range filler {
				filler[i] = 0x55
			}
			cls := fmt.Sprintf("high length bits %#x set over a short frame", hi)
			run(gen.Cat(c, filler), cls)
			getMessage(w, gen.Cat(c, filler), cls)
			getMessage(w, c, cls+" (buffer ends with the short frame)")
		}
		// history: a handler that has just accepted a valid frame is given the same frame again with damage confined
		// to the payload (type bits, length and the stored CRC bytes as before), directly and in one stream
		for k := 0; k < 3*scale; k++ {
			typ := []int{1005, 1230, 1077, 1006, 4072}[k%5]
			f := gen.Frame(rng, typ, 8+rng.Intn(30), 0)
			d := append([]byte{}, f...)
			i := 5 + rng.Intn(len(f)-8) // a payload byte after the type bits, before the CRC
			d[i] ^= byte(1 << uint(rng.Intn(8)))
			h := handler.New(framerStart, slog.LevelDebug)
			getMessageOn(w, h, f, "history: valid")
			getMessageOn(w, h, d, "history: same frame, payload damaged")
			getMessageOn(w, h, f, "history: valid again")
			run(gen.Cat(f, gen.Junk(rng, 2+rng.Intn(6), 1), d, f), "history stream: valid, text, damaged twin, valid")
			run(gen.Cat(f, d), "history stream: valid, damaged twin")
		}
		// history: a stream that ENDS INSIDE a frame (good leader, connection dropped) leaves the handler in mid-frame; the
		// verdict of the next single-frame decode on that handler depends on its own buffer only - a valid frame of another
		// type and the same length, a buffer whose length field is wrong but whose CRC matches the abandoned frame's
		// length, a valid frame of another length, and the abandoned frame itself, completed
		for k := 0; k < 2*scale; k++ {
			typ := []int{1005, 1077, 1230, 4072}[k%4]
			plen := 8 + rng.Intn(40)
			f := gen.Frame(rng, typ, plen, 0)
			cut := 5 + rng.Intn(len(f)-5) // at least the leader, not the whole frame
			run(gen.Cat(gen.Frame(rng, 1006, 21, 0), f[:cut]), "history: stream ends inside a frame")
			h := lastHandler
			if h == nil {
				continue
			}
			other := gen.Frame(rng, []int{1006, 1230, 1005, 1087}[k%4], plen, 0)
			wrongLen := append([]byte{}, other...)
			d := plen + 1 + rng.Intn(20)
			wrongLen[1], wrongLen[2] = byte(d>>8)&3, byte(d)
			tr.FixCRC(wrongLen)
			resv := append([]byte{}, other...)
			resv[1] |= 0x40
			tr.FixCRC(resv)
			for j, b := range [][]byte{other, wrongLen, resv, gen.Frame(rng, 1230, plen+3, 0), f} {
				if j > 0 {
					// put the handler back into the same state for each buffer
					run(gen.Cat(gen.Frame(rng, 1006, 21, 0), f[:cut]), "history: stream ends inside a frame")
					if h = lastHandler; h == nil {
						break
					}
				}
				getMessageOn(w, h, b, fmt.Sprintf("history: single-frame decode %d on a handler whose stream ended inside a frame", j))
			}
		}
		for i, plen := range gen.Lens(rng, thorough, 6) {
			typ := gen.TypeClass(rng, i)
			if gen.IsMSM(typ) && plen < 4 {
				typ = 1005 // short MSM-type frames are C07's business
			}
			f := gen.Frame(rng, typ, plen, i%3)
			run(f, fmt.Sprintf("valid len%d", plen))
			getMessage(w, f, fmt.Sprintf("valid len%d", plen))
			if thorough || i%4 == 0 {
				crcVariants(f, fmt.Sprintf("len%d", plen))
			}
			// CRC-valid but reserved bits set / length field wrong (CRC recomputed over the whole buffer)
			if thorough || i%3 == 0 {
				g := append([]byte{}, f...)
				g[1] |= byte(4 << uint(rng.Intn(6)))
				tr.FixCRC(g)
				run(g, "reserved bits set, crc valid")
				getMessage(w, g, "reserved bits set, crc valid")
				// declared length shorter than the buffer
				if plen > 2 {
					s := append([]byte{}, f...)
					d := 1 + rng.Intn(plen-1)
					s[1], s[2] = byte(d>>8)&3, byte(d)
					tr.FixCRC(s)
					run(s, "declared shorter, crc over whole buffer")
					getMessage(w, s, "declared shorter, crc over whole buffer")
				}
				// declared length longer than the buffer
				if plen < 1023 {
					s := append([]byte{}, f...)
					d := plen + 1 + rng.Intn(1023-plen)
					s[1], s[2] = byte(d>>8)&3, byte(d)
					tr.FixCRC(s)
					run(s, "declared longer, crc over whole buffer")
					getMessage(w, s, "declared longer, crc over whole buffer")
				}
				// valid frame followed by extra bytes in the same buffer
				x := gen.Cat(f, gen.Garbage(rng, 1+rng.Intn(8)))
				getMessage(w, x, "valid frame plus trailing bytes")
			}
		}
		// reserved bits set so that a WIDER length field (11..16 bits) would equal the real payload size, CRC valid
		for _, size := range []int{1024, 1025, 1279, 1536, 2048, 2049, 4096 + 19} {
			if !thorough && size > 2100 {
				continue
			}
			p := gen.Payload(rng, gen.TypeClass(rng, size), size, 0)
			f := append([]byte{0xd3, byte(size >> 8), byte(size)}, p...)
			f = append(f, 0, 0, 0)
			tr.FixCRC(f)
			run(gen.Cat(gen.Frame(rng, 1005, 19, 0), f, gen.Frame(rng, 1006, 21, 0)), fmt.Sprintf("oversize %d, wider length field, crc valid", size))
			getMessage(w, f, fmt.Sprintf("oversize %d, wider length field, crc valid", size))
		}
		// zero length, CRC valid
		for i := 0; i < 3; i++ {
			z := []byte{0xd3, 0, 0, byte(rng.Intn(256)), byte(rng.Intn(256)), 0, 0, 0}
			tr.FixCRC(z)
			run(z, "zero length, crc valid")
			getMessage(w, z, "zero length, crc valid")
			z2 := []byte{0xd3, 0, 0, 0, 0, 0}
			tr.FixCRC(z2)
			run(z2, "zero length 6 bytes")
			getMessage(w, z2, "zero length 6 bytes")
		}
		// bit flips and bursts anywhere (leader included)
		for i := 0; i < 40*scale; i++ {
			f := gen.Frame(rng, gen.TypeClass(rng, i), 4+rng.Intn(60), 0)
			c := append([]byte{}, f...)
			nflip := 1 + rng.Intn(3)
			for k := 0; k < nflip; k++ {
				b := rng.Intn(len(c) * 8)
				c[b/8] ^= 1 << uint(7-b%8)
			}
			run(gen.Cat(gen.Junk(rng, rng.Intn(4), 0), c, gen.Frame(rng, 1006, 21, 0)), "bitflips")
			getMessage(w, c, "bitflips")
		}
		// truncations and short buffers through GetMessage
		f := gen.Frame(rng, 1005, 19, 0)
		for cut := 0; cut <= len(f); cut++ {
			getMessage(w, f[:cut], fmt.Sprintf("trunc%d", cut))
		}
		for i := 0; i < 20*scale; i++ {
			getMessage(w, gen.Garbage(rng, rng.Intn(40)), "garbage")
			getMessage(w, gen.Junk(rng, 1+rng.Intn(40), i%3), "junk")
			run(gen.Garbage(rng, rng.Intn(200)), "garbage")
		}
		for i := 0; i < 10*scale; i++ {
			run(wellStructured(rng, 2+rng.Intn(6), 100, i), "random ws")
		}
	default:
		panic("unknown framer mode " + mode)
	}
}
