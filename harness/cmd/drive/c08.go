package main

import (
	"fmt"
	"encoding/json"
	"log/slog"
	"math"
	"math/big"
	"math/rand"
	"os"
	"strconv"
	"strings"

	msm4 "github.com/goblimey/go-ntrip/rtcm/type_msm4/message"
	msm7 "github.com/goblimey/go-ntrip/rtcm/type_msm7/message"
	"verifharness/internal/gen"
	"verifharness/internal/tr"
)

func init() { commands["c08"] = c08 }

type c08Consts struct {
	C          int64     `json:"c_m_per_s"`
	RangeUnit  uint      `json:"range_unit_log2"`
	PhaseUnit  uint      `json:"phase_unit_log2"`
	RangeRadix uint      `json:"range_radix_log2"`
	PhaseRadix uint      `json:"phase_radix_log2"`
	RateScale  int64     `json:"rate_scale"`
	FreqKHz    [][]int64 `json:"freq_khz"`
}

type c08Event struct {
	Fam       string   `json:"fam"`
	Con       string   `json:"con"`
	Sig       int      `json:"sig"`
	Whole     int      `json:"whole"`
	Frac      int      `json:"frac"`
	Fine      int      `json:"fine"`
	Phase     int      `json:"phase"`
	RoughRate int      `json:"rough_rate"`
	FineRate  int      `json:"fine_rate"`
	AggRange  [2]int64 `json:"agg_range"`
	AggPhase  [2]int64 `json:"agg_phase"`
	AggRate   int64    `json:"agg_rate"`
	NInvalid  int      `json:"n_invalid"`
	FloatOK   bool     `json:"float_ok"`
	FloatErr  string   `json:"float_err"`
	Floats    []string `json:"floats"`
	Freq      int64    `json:"freq_khz"`
	Text      string   `json:"text,omitempty"`
	Panic     string   `json:"panic"`
}

func split(v uint64, radix uint) [2]int64 {
	hi := v >> radix
	if hi >= 1<<31 {
		return [2]int64{-1, int64(v & (1<<radix - 1))} // wrapped negative: outside TLC's integers, never equal to the spec's value
	}
	return [2]int64{int64(hi), int64(v & (1<<radix - 1))}
}

// close reports whether got is within 8 ulp of the exact rational want.
func closeTo(got float64, want *big.Rat) bool {
	if math.IsNaN(got) || math.IsInf(got, 0) {
		return false
	}
	g := new(big.Rat).SetFloat64(got)
	d := new(big.Rat).Sub(g, want)
	d.Abs(d)
	tol := new(big.Rat).Abs(want)
	tol.Mul(tol, big.NewRat(8, 1<<52))
	return d.Cmp(tol) <= 0
}

func pow2(n uint) *big.Rat { return new(big.Rat).SetInt(new(big.Int).Lsh(big.NewInt(1), n)) }

func c08(args []string) {
	var k c08Consts
	b, err := os.ReadFile(args[0])
	if err != nil || json.Unmarshal(b, &k) != nil {
		panic("cannot read constants exported by TLC")
	}
	w := tr.NewWriter(args[1])
	defer w.Close()
	rng := tr.Rand(8)
	thorough := tr.Thorough()
	c := new(big.Rat).SetInt64(k.C)
	cons := []string{"gps", "galileo", "glonass", "beidou"}
	types := map[string][2]int{"gps": {1074, 1077}, "galileo": {1094, 1097}, "glonass": {1084, 1087}, "beidou": {1124, 1127}}

	check := func(ev *c08Event, ci int, wavelength, rangeM, phaseCyc, rate, doppler float64, aggR, aggP uint64, aggRate int64, msm7 bool) {
		ev.Floats = []string{}
		for _, x := range []float64{wavelength, rangeM, phaseCyc, rate, doppler} {
			ev.Floats = append(ev.Floats, strconv.FormatFloat(x, 'g', 17, 64))
		}
		f := k.FreqKHz[ci][ev.Sig-1]
		ev.Freq = f
		var errs []string
		// wavelength: defined by the documented table
		var lambda *big.Rat
		if f != 0 {
			// a documented frequency: the wavelength is defined and is c/f (a zero or infinite wavelength here
			// would silently take the cell out of the property's scope)
			lambda = new(big.Rat).Quo(c, big.NewRat(f*1000, 1))
			if wavelength == 0 || math.IsInf(wavelength, 0) || math.IsNaN(wavelength) || !closeTo(wavelength, lambda) {
				errs = append(errs, "wavelength")
			}
		} else if wavelength != 0 && !math.IsInf(wavelength, 0) && !math.IsNaN(wavelength) {
			lambda = new(big.Rat).SetFloat64(wavelength) // no documented frequency: consistency with the library's own value
		}
		nonNegR := aggR < 1<<50
		nonNegP := aggP < 1<<50
		if nonNegR {
			want := new(big.Rat).SetInt(new(big.Int).SetUint64(aggR))
			want.Mul(want, c).Quo(want, big.NewRat(1000, 1)).Quo(want, pow2(k.RangeUnit))
			if !closeTo(rangeM, want) {
				errs = append(errs, "range")
			}
		}
		if lambda != nil && nonNegP {
			want := new(big.Rat).SetInt(new(big.Int).SetUint64(aggP))
			want.Mul(want, c).Quo(want, big.NewRat(1000, 1)).Quo(want, pow2(k.PhaseUnit)).Quo(want, lambda)
			if !closeTo(phaseCyc, want) {
				errs = append(errs, "phase")
			}
		}
		if msm7 {
			want := big.NewRat(aggRate, k.RateScale)
			if !closeTo(rate, want) {
				errs = append(errs, "rate")
			}
			if lambda != nil {
				d := new(big.Rat).Neg(want)
				d.Quo(d, lambda)
				if !closeTo(doppler, d) {
					errs = append(errs, "doppler")
				}
			}
		}
		ev.FloatOK = len(errs) == 0
		ev.FloatErr = strings.Join(errs, ",")
	}

	// history: the values of a message that was decoded earlier and is still held (a display that lags, a queue of recent
	// messages) are asked for again after the NEXT message has been decoded: they must be what they were
	var prevEval func() string
	var prevFirst string
	recheck := func(fam, con string) {
		if prevEval == nil {
			return
		}
		ev := c08Event{Fam: fam, Con: con, Sig: 1, Floats: []string{}}
		ev.FloatOK = true
		if now := prevEval(); now != prevFirst {
			ev.Panic = "the values of an earlier message changed after a later message was decoded"
			w.Emit(ev)
		}
		prevEval = nil
	}
	fracs := []int64{0, 1, 511, 512, 1023}
	whole := 0
	nmsg := 50
	if thorough {
		nmsg = 400
	}
	for ci, con := range cons {
		for fi, fam := range []string{"msm4", "msm7"} {
			typ := types[con][fi]
			for mi := 0; mi < nmsg; mi++ {
				nsat := 8
				nsig := 8
				sigIDs := rng.Perm(32)[:nsig]
				s := &gen.MSMSpec{Type: typ, Station: 1, TS: 1000, MM: 0}
				for _, p := range rng.Perm(64)[:nsat] {
					s.SatMask |= 1 << uint(63-p)
				}
				for _, p := range sigIDs {
					s.SigMask |= 1 << uint(31-p)
				}
				sw := gen.SatWidths(typ)
				for sIdx := 0; sIdx < nsat; sIdx++ {
					row := make([]int64, len(sw))
					row[0] = int64(whole % 256) // sweeps 0..255 incl. the invalid marker
					if rng.Intn(12) == 0 {
						row[0] = 255
					}
					if rng.Intn(12) == 0 {
						row[0] = 0
					}
					whole++
					fr := fracs[rng.Intn(len(fracs))]
					if rng.Intn(3) == 0 {
						fr = int64(rng.Intn(1024))
					}
					if fam == "msm7" {
						row[1] = int64(rng.Intn(16))
						row[2] = fr
						row[3] = pickSigned(rng, 14)
					} else {
						row[1] = fr
					}
					s.Sat = append(s.Sat, row)
				}
				gw, gs := gen.SigWidths(typ)
				for i := 0; i < nsat*nsig; i++ {
					s.CellMask = append(s.CellMask, 1)
					row := make([]int64, len(gw))
					for fi2, width := range gw {
						if gs[fi2] {
							row[fi2] = pickSigned(rng, width)
						} else {
							row[fi2] = rng.Int63n(1 << uint(width))
						}
					}
					s.Cell = append(s.Cell, row)
				}
				// every tenth message is one part of a multiple-message group that carries fewer signal cells than its cell mask
				// names (flag set): the cells that ARE there decode to what was sent and obey the same formulas
				partial := mi%10 == 9
				if partial {
					s.MM = 1
					s.Cell = s.Cell[:1+rng.Intn(len(s.Cell)-1)]
				}
				frame := tr.Frame(s.Encode())
				lv := slog.LevelDebug
				if mi%2 == 0 {
					lv = slog.LevelInfo
				}
				if fam == "msm4" {
					m, err := msm4.GetMessage(frame, lv)
					if err != nil {
						panic("driver: MSM4 decode failed: " + err.Error())
					}
					eval := func(emit bool) string {
						var sum strings.Builder
						flat := -1
						for si, rowc := range m.Signals {
							for i := range rowc {
								cell := &rowc[i]
								flat++
								ev := c08Event{Fam: fam, Con: con, Sig: int(cell.ID), Whole: int(cell.Satellite.RangeWholeMillis), Frac: int(cell.Satellite.RangeFractionalMillis),
									Fine: cell.RangeDelta, Phase: cell.PhaseRangeDelta, Floats: []string{}}
								// the quantities of the formulas are the TRANSMITTED ones: what the decoder hands over is what was sent
								sent := "a decoded field differs from the transmitted one"
								if si < nsat && flat < len(s.Cell) && (partial || (len(rowc) == nsig && len(m.Signals) == nsat && flat == si*nsig+i)) {
									tx, sat := s.Cell[flat], s.Sat[si]
									if int64(cell.RangeDelta) == tx[0] && int64(cell.PhaseRangeDelta) == tx[1] && int64(cell.Satellite.RangeWholeMillis) == sat[0] && int64(cell.Satellite.RangeFractionalMillis) == sat[1] {
										sent = ""
									}
								}
								ev.Panic = tr.Recover(func() {
									if sent != "" {
										panic(sent)
									}
									aR, aP := cell.GetAggregateRange(), cell.GetAggregatePhaseRange()
									ev.AggRange, ev.AggPhase = split(aR, k.RangeRadix), split(aP, k.PhaseRadix)
									text := cell.String()
									ev.NInvalid = strings.Count(text, "invalid")
									if emit && w.N%500 == 0 {
										ev.Text = text
									}
									check(&ev, ci, cell.Wavelength, cell.RangeInMetres(), cell.PhaseRange(), 0, 0, aR, aP, 0, false)
								})
								fmt.Fprint(&sum, ev.Whole, ev.Frac, ev.AggRange, ev.AggPhase, ev.Floats, ev.NInvalid, ev.Panic, ";")
								if emit {
									w.Emit(ev)
								}
							}
						}
						return sum.String()
					}
					recheck(fam, con)
					first := eval(true)
					prevEval, prevFirst = func() string { return eval(false) }, first
				} else {
					m, err := msm7.GetMessage(frame, lv)
					if err != nil {
						panic("driver: MSM7 decode failed: " + err.Error())
					}
					eval := func(emit bool) string {
						var sum strings.Builder
						flat := -1
						for si, rowc := range m.Signals {
							for i := range rowc {
								cell := &rowc[i]
								flat++
								ev := c08Event{Fam: fam, Con: con, Sig: int(cell.ID), Whole: int(cell.Satellite.RangeWholeMillis), Frac: int(cell.Satellite.RangeFractionalMillis),
									Fine: cell.RangeDelta, Phase: cell.PhaseRangeDelta, RoughRate: cell.Satellite.PhaseRangeRate, FineRate: cell.PhaseRangeRateDelta, Floats: []string{}}
								sent := "a decoded field differs from the transmitted one"
								if si < nsat && flat < len(s.Cell) && (partial || (len(rowc) == nsig && len(m.Signals) == nsat && flat == si*nsig+i)) {
									tx, sat := s.Cell[flat], s.Sat[si]
									if int64(cell.RangeDelta) == tx[0] && int64(cell.PhaseRangeDelta) == tx[1] && int64(cell.PhaseRangeRateDelta) == tx[5] && int64(cell.Satellite.RangeWholeMillis) == sat[0] &&
										int64(cell.Satellite.RangeFractionalMillis) == sat[2] && int64(cell.Satellite.PhaseRangeRate) == sat[3] {
										sent = ""
									}
								}
								ev.Panic = tr.Recover(func() {
									if sent != "" {
										panic(sent)
									}
									aR, aP, aV := cell.GetAggregateRange(), cell.GetAggregatePhaseRange(), cell.GetAggregatePhaseRangeRate()
									ev.AggRange, ev.AggPhase, ev.AggRate = split(aR, k.RangeRadix), split(aP, k.PhaseRadix), aV
									text := cell.String()
									ev.NInvalid = strings.Count(text, "invalid")
									if emit && w.N%500 == 0 {
										ev.Text = text
									}
									check(&ev, ci, cell.Wavelength, cell.RangeInMetres(), cell.PhaseRange(), cell.PhaseRangeRate(), cell.PhaseRangeRateDoppler(), aR, aP, aV, true)
								})
								fmt.Fprint(&sum, ev.Whole, ev.Frac, ev.AggRange, ev.AggPhase, ev.AggRate, ev.Floats, ev.NInvalid, ev.Panic, ";")
								if emit {
									w.Emit(ev)
								}
							}
						}
						return sum.String()
					}
					recheck(fam, con)
					first := eval(true)
					prevEval, prevFirst = func() string { return eval(false) }, first
				}
			}
		}
	}
}

// pickSigned favours the extremes of a two's-complement field of the given width.
func pickSigned(rng *rand.Rand, width int) int64 {
	min := -(int64(1) << uint(width-1))
	max := int64(1)<<uint(width-1) - 1
	switch rng.Intn(9) {
	case 0:
		return min // the 'invalid' marker
	case 1:
		return min + 1
	case 2:
		return max
	case 3:
		return 0
	case 4:
		return -1
	case 5:
		return 1
	}
	return min + rng.Int63n(max-min+1)
}
