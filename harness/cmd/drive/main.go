// drive runs the real go-ntrip code on generated cases and records ND-JSON
// traces for TLC (direction A), or replays TLC-generated behaviours
// (direction B).  One subcommand per property family.
package main

import (
	"fmt"
	"os"
)

var commands = map[string]func(args []string){}

func main() {
	if len(os.Args) < 2 {
		fmt.Fprintln(os.Stderr, "usage: drive <family> args...")
		os.Exit(64)
	}
	f, ok := commands[os.Args[1]]
	if !ok {
		fmt.Fprintln(os.Stderr, "unknown family", os.Args[1])
		os.Exit(64)
	}
	f(os.Args[2:])
}
