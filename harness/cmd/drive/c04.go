package main

import (
	"math/bits"
	"fmt"
	"bytes"
	"encoding/json"
	"log/slog"
	"time"

	"github.com/goblimey/go-ntrip/rtcm/handler"
	"github.com/goblimey/go-ntrip/rtcm/header"
	msm4 "github.com/goblimey/go-ntrip/rtcm/type_msm4/message"
	msm7 "github.com/goblimey/go-ntrip/rtcm/type_msm7/message"
	"verifharness/internal/gen"
	"verifharness/internal/tr"
)

func init() { commands["c04"] = c04 }

type c04Hdr struct {
	Type    int `json:"type"`
	Station int `json:"station"`
	TS      int `json:"ts"`
	MM      int `json:"mm"`
	IODS    int `json:"iods"`
	Sess    int `json:"sess"`
	Clk     int `json:"clk"`
	ExtClk  int `json:"extclk"`
	Smooth  int `json:"smooth"`
	SmInt   int `json:"smint"`
}
type c04Event struct {
	Raw      []int   `json:"raw"`
	Path     string  `json:"path"`
	Cls      string  `json:"cls"`
	Pad      int     `json:"pad"`
	Err      string  `json:"err"`
	Hdr      c04Hdr  `json:"hdr"`
	SatMask  []int   `json:"satmask"`
	SigMask  []int   `json:"sigmask"`
	CellMask []int   `json:"cellmask"`
	Sats     []int   `json:"sats"`
	Sigs     []int   `json:"sigs"`
	NCell    int     `json:"ncell"`
	SatCells [][]int `json:"satcells"`
	Cells    [][]int `json:"cells"`
	Panic    string  `json:"panic"`
}

func b2i(b bool) int {
	if b {
		return 1
	}
	return 0
}
func bitsOf(v uint64, n int) []int {
	r := make([]int, n)
	for i := 0; i < n; i++ {
		r[i] = int((v >> uint(n-1-i)) & 1)
	}
	return r
}
func uints(a []uint) []int {
	r := make([]int, len(a))
	for i, x := range a {
		r[i] = int(x)
	}
	return r
}

func projHeader(ev *c04Event, h *header.Header) {
	ev.Hdr = c04Hdr{h.MessageType, int(h.StationID), int(h.Timestamp), b2i(h.MultipleMessage), int(h.IssueOfDataStation),
		int(h.SessionTransmissionTime), int(h.ClockSteeringIndicator), int(h.ExternalClockSteeringIndicator),
		b2i(h.GNSSDivergenceFreeSmoothingIndicator), int(h.GNSSSmoothingInterval)}
	ev.SatMask = bitsOf(h.SatelliteMask, 64)
	ev.SigMask = bitsOf(uint64(h.SignalMask), 32)
	ev.Sats, ev.Sigs = uints(h.Satellites), uints(h.Signals)
	ev.NCell = h.NumSignalCells
	ev.CellMask = []int{}
	for i := range h.Cells {
		for j := range h.Cells[i] {
			ev.CellMask = append(ev.CellMask, b2i(h.Cells[i][j]))
		}
	}
	// the mask as a number must agree with the matrix
	if len(ev.CellMask) <= 64 {
		m := bitsOf(h.CellMask, len(ev.CellMask))
		for i := range m {
			if m[i] != ev.CellMask[i] {
				ev.Err = "CellMask number and Cells matrix disagree"
			}
		}
	}
}

var c04Held interface{}
var c04HeldJS string
var c04HeldRaw []int

func c04Decode(w *tr.Writer, frame []byte, path, cls string, pad int, lv slog.Level) {
	ev := c04Event{Raw: tr.Ints(frame), Path: path, Cls: cls, Pad: pad, SatMask: []int{}, SigMask: []int{}, CellMask: []int{}, Sats: []int{}, Sigs: []int{}, SatCells: [][]int{}, Cells: [][]int{}}
	// the frame is handed over as a slice of a larger array: decoding only reads it, and nothing behind it either
	backing := append(append(make([]byte, 0, len(frame)+16), frame...), bytes.Repeat([]byte{0xa5}, 16)...)
	frame = backing[:len(frame)]
	before := append([]byte{}, backing...)
	defer func() {
		if !bytes.Equal(before, backing) {
			w.Emit(c04Event{Raw: tr.Ints(before[:len(frame)]), Path: path, Cls: "caller memory", Pad: 0, SatMask: []int{}, SigMask: []int{}, CellMask: []int{}, Sats: []int{}, Sigs: []int{}, SatCells: [][]int{}, Cells: [][]int{},
				Err: "decoding wrote to the caller's memory (the frame or the bytes behind it)"})
		}
	}()
	ev.Panic = tr.Recover(func() {
		typ := int(frame[3])<<4 | int(frame[4])>>4
		var m4 *msm4.Message
		var m7 *msm7.Message
		var err error
		if path == "handler" {
			h := handler.New(time.Date(2023, 5, 10, 0, 0, 0, 0, time.UTC), lv)
			m, e := h.GetMessage(frame)
			if m == nil || m.MessageType < 0 {
				ev.Err = "GetMessage: " + errText(e)
				return
			}
			// (an error here is a timestamp complaint, C06's business: the message is still typed)
			handler.Analyse(m)
			switch r := m.Readable.(type) {
			case *msm4.Message:
				m4 = r
			case *msm7.Message:
				m7 = r
			default:
				ev.Err = "Analyse: " + m.ErrorMessage
				if m.ErrorMessage == "" {
					ev.Err = "Analyse produced no MSM"
				}
				return
			}
			_ = m.String()
		} else if gen.IsMSM7(typ) {
			m7, err = msm7.GetMessage(frame, lv)
		} else {
			m4, err = msm4.GetMessage(frame, lv)
		}
		if err != nil {
			ev.Err = errText(err)
			return
		}
		// history: the message decoded BEFORE this one is still held by its user (a lagging display, the proxy's
		// queue): decoding another message must not change it
		if c04Held != nil {
			if now, _ := json.Marshal(c04Held); string(now) != c04HeldJS {
				hv := c04Event{Raw: c04HeldRaw, Path: path, Cls: "held while the next message was decoded", Pad: 0, SatMask: []int{}, SigMask: []int{}, CellMask: []int{}, Sats: []int{}, Sigs: []int{}, SatCells: [][]int{}, Cells: [][]int{},
					Err: "an earlier decoded message changed when a later message was decoded"}
				w.Emit(hv)
			}
		}
		if m4 != nil {
			c04Held = m4
		} else {
			c04Held = m7
		}
		js, _ := json.Marshal(c04Held)
		c04HeldJS, c04HeldRaw = string(js), tr.Ints(frame)
		if m4 != nil {
			projHeader(&ev, m4.Header)
			for _, s := range m4.Satellites {
				ev.SatCells = append(ev.SatCells, []int{int(s.RangeWholeMillis), int(s.RangeFractionalMillis)})
			}
			for i, row := range m4.Signals {
				for _, c := range row {
					sid := -1
					if c.Satellite != nil {
						sid = int(c.Satellite.ID)
					}
					if i < len(m4.Satellites) && int(m4.Satellites[i].ID) != sid {
						ev.Err = "signal cell grouped under the wrong satellite"
					}
					if c.Satellite != nil && i < len(m4.Satellites) && *c.Satellite != m4.Satellites[i] {
						ev.Err = "signal cell's satellite data differ from the satellite cell"
					}
					ev.Cells = append(ev.Cells, []int{sid, int(c.ID), c.RangeDelta, c.PhaseRangeDelta, int(c.LockTimeIndicator), b2i(c.HalfCycleAmbiguity), int(c.CarrierToNoiseRatio)})
				}
			}
			if len(m4.Signals) != len(m4.Satellites) {
				ev.Err = "signal rows != satellites"
			}
		} else {
			projHeader(&ev, m7.Header)
			for _, s := range m7.Satellites {
				ev.SatCells = append(ev.SatCells, []int{int(s.RangeWholeMillis), int(s.ExtendedInfo), int(s.RangeFractionalMillis), s.PhaseRangeRate})
			}
			for i, row := range m7.Signals {
				for _, c := range row {
					sid := -1
					if c.Satellite != nil {
						sid = int(c.Satellite.ID)
					}
					if i < len(m7.Satellites) && int(m7.Satellites[i].ID) != sid {
						ev.Err = "signal cell grouped under the wrong satellite"
					}
					if c.Satellite != nil && i < len(m7.Satellites) && *c.Satellite != m7.Satellites[i] {
						ev.Err = "signal cell's satellite data differ from the satellite cell"
					}
					ev.Cells = append(ev.Cells, []int{sid, int(c.ID), c.RangeDelta, c.PhaseRangeDelta, int(c.LockTimeIndicator), b2i(c.HalfCycleAmbiguity), int(c.CarrierToNoiseRatio), c.PhaseRangeRateDelta})
				}
			}
			if len(m7.Signals) != len(m7.Satellites) {
				ev.Err = "signal rows != satellites"
			}
		}
	})
	w.Emit(ev)
}

func errText(e error) string {
	if e == nil {
		return "nil message"
	}
	if e.Error() == "" {
		return "error"
	}
	return e.Error()
}

func c04(args []string) {
	w := tr.NewWriter(args[0])
	defer w.Close()
	rng := tr.Rand(4)
	thorough := tr.Thorough()
	rounds := 1
	if thorough {
		rounds = 10
	}
	n := 0
	// near-twin messages decoded one after the other in the same process
	for k := 0; k < 10*rounds; k++ {
		for _, p := range gen.TwinMSMs(rng, gen.MSMTypes[k%14]) {
			if len(p) <= 1023 {
				c04Decode(w, tr.Frame(p), []string{"decoder", "handler"}[k%2], "twin/mixed", 0, slog.LevelInfo)
			}
		}
	}
	// exact fits: messages whose last field ends exactly at the end of the last byte (no padding bits, no padding bytes),
	// with 0, 1, 2 and 3 signal cells, multiple-message flag clear and set - the place where a "<" that should be "<="
	// (or the reverse) in a length test shows
	for _, typ := range []int{1074, 1077, 1084, 1097, 1124, 1127} {
		satBits, cellBits := 18, 48
		if gen.IsMSM7(typ) {
			satBits, cellBits = 36, 80
		}
		for want := 0; want <= 3; want++ {
			for _, mm := range []uint64{0, 1} {
				if want == 0 && mm == 1 {
					continue
				}
				for try := 0; try < 4000; try++ {
					spec := gen.RandomMSM(rng, typ, []int{6, 4, 1, 5}[try%4], -1, mm, 0)
					nsat, ncell := bits.OnesCount64(spec.SatMask), len(spec.Cell)
					nsig := bits.OnesCount32(spec.SigMask)
					if ncell != want || (169+nsat*nsig+nsat*satBits+ncell*cellBits)%8 != 0 {
						continue
					}
					p := spec.Encode()
					c04Decode(w, tr.Frame(p), []string{"decoder", "handler"}[try%2], fmt.Sprintf("exact fit, %d cells, flag %d", want, mm), 0, []slog.Level{slog.LevelInfo, slog.LevelDebug}[want%2])
					break
				}
			}
		}
	}
	for r := 0; r < rounds; r++ {
		for ti, typ := range gen.MSMTypes {
			for shape := 0; shape <= 7; shape++ {
				for vk := -1; vk <= 4; vk++ {
					if !thorough && (shape+vk+ti)%2 != 0 && vk > 0 {
						continue
					}
					mm := uint64((n / 3) % 2)
					if shape == 0 || shape == 6 {
						mm = 0 // a message without any signal cell is considered only with the flag clear
					}
					spec := gen.RandomMSM(rng, typ, shape, vk, mm, 0)
					payload := spec.Encode()
					if len(payload) > 1023 {
						continue
					}
					pads := []int{0, 1 + rng.Intn(3), 10, 20 + rng.Intn(40)}
					if n%7 == 0 {
						pads = append(pads, 1023-len(payload)) // up to the 1023-byte limit
					}
					base := len(payload)
					for pi, pad := range pads {
						if !thorough && pi > 0 && (n+pi)%3 != 0 {
							continue
						}
						if base+pad > 1023 {
							continue
						}
						p := append(append([]byte{}, payload...), make([]byte, pad)...)
						f := tr.Frame(p)
						path := "decoder"
						if (n+pi)%4 == 0 {
							path = "handler"
						}
						lv := slog.LevelDebug
						if n%2 == 0 {
							lv = slog.LevelInfo
						}
						cls := []string{"empty", "1xN", "Nx1", "8x8", "sparse", "random", "nocell", "typical"}[shape] + "/" + []string{"mixed", "random", "min", "max", "zero", "ones"}[vk+1]
						c04Decode(w, f, path, cls, pad, lv)
					}
					n++
				}
			}
		}
	}
}
