package main

import (
	"sync/atomic"
	"errors"
	"log"
	"strconv"
	"bufio"
	"bytes"
	"crypto/sha1"
	"encoding/hex"
	"encoding/json"
	"fmt"
	"io"
	"log/slog"
	"math/rand"
	"os"
	"syscall"
	"runtime"
	"sync"
	"time"

	"github.com/goblimey/go-ntrip/apps/appcore"
	"github.com/goblimey/go-ntrip/jsonconfig"
	"github.com/goblimey/go-ntrip/rtcm/handler"
	"github.com/goblimey/go-ntrip/verifhook"
	"verifharness/internal/gate"
	"verifharness/internal/gen"
	"verifharness/internal/tr"
)

// C09: reader -> framer -> fan-out pipeline.
//   drive c09 inputs <out>                 small inputs for the Pipeline model (direction B)
//   drive c09 run <behaviours> <out>       gated replay of TLC behaviours + free-running cases
func init() { commands["c09"] = c09 }

// longStallsLeft: how many more second-long consumer stalls this run of the driver makes (lag mode)
var longStallsLeft int32 = 2

type c09Input struct {
	In   []int `json:"in"`
	Caps []int `json:"caps"`
}
type c09Beh struct {
	In   []int           `json:"in"`
	Caps []int           `json:"caps"`
	Hist [][]interface{} `json:"hist"`
}
type c09Case struct {
	Ev    string   `json:"ev"`
	Ref   []string `json:"ref"`
	NCons int      `json:"ncons"`
	Mode  string   `json:"mode"`
	Caps  []int    `json:"caps"`
	NIn   int      `json:"nin"`
	Procs int      `json:"procs"`
}
type c09Recv struct {
	Ev string `json:"ev"`
	I  int    `json:"i"`
	D  string `json:"d"`
}
type c09End struct {
	Ev       string `json:"ev"`
	Returned bool   `json:"returned"`
	Leaked   int    `json:"leaked"`
	Panic    string `json:"panic"`
	Drift    string `json:"drift"`
	Steps    int    `json:"steps"`
}

func msgDigest(m *handler.Message) string {
	h := sha1.Sum(m.RawData)
	return fmt.Sprintf("%d:%d:%s", m.MessageType, len(m.RawData), hex.EncodeToString(h[:6]))
}

// sequential reference: the real framer fed directly, one goroutine feeding, this one reading
func sequentialRef(in []byte, start time.Time) []string {
	chIn := make(chan byte, len(in)+1)
	for _, b := range in {
		chIn <- b
	}
	close(chIn)
	chOut := make(chan handler.Message, 16)
	h := handler.New(start, slog.LevelDebug)
	go h.HandleMessages(chIn, chOut)
	ref := []string{}
	for m := range chOut {
		mm := m
		ref = append(ref, msgDigest(&mm))
	}
	return ref
}

type chunkReader struct {
	data    []byte
	rng     *rand.Rand
	max     int
	eofWith bool // the last chunk is returned together with io.EOF (as io.Reader allows)
	failure error // what ends the input instead of io.EOF (a device that goes away: "input/output error")
}

func (c *chunkReader) end() error {
	if c.failure != nil {
		return c.failure
	}
	return io.EOF
}

func (c *chunkReader) Read(p []byte) (int, error) {
	if len(c.data) == 0 {
		return 0, c.end()
	}
	n := 1 + c.rng.Intn(c.max)
	if n > len(p) {
		n = len(p)
	}
	if n > len(c.data) {
		n = len(c.data)
	}
	copy(p, c.data[:n])
	c.data = c.data[n:]
	if c.rng.Intn(8) == 0 {
		runtime.Gosched()
	}
	if c.eofWith && len(c.data) == 0 {
		return n, c.end()
	}
	return n, nil
}

var c09Start = time.Date(2023, 5, 10, 12, 0, 0, 0, time.UTC)

// settle waits for the goroutine count to come back to base.
func settle(base int) int {
	deadline := time.Now().Add(5 * time.Second)
	for {
		n := runtime.NumGoroutine()
		if n <= base || time.Now().After(deadline) {
			if n > base {
				return n - base
			}
			return 0
		}
		time.Sleep(2 * time.Millisecond)
	}
}

var lastDrift bool
var driftStreak int

// splitAtMessageBoundary returns an offset at which the real framer, run sequentially, has just finished a message
// and the rest starts a new one (so that framing the two halves separately gives the same messages as framing the whole).
func splitAtMessageBoundary(in []byte) int {
	chIn := make(chan byte, len(in)+1)
	for _, b := range in {
		chIn <- b
	}
	close(chIn)
	chOut := make(chan handler.Message, 16)
	h := handler.New(c09Start, slog.LevelDebug)
	go h.HandleMessages(chIn, chOut)
	var ends []int
	off := 0
	for m := range chOut {
		off += len(m.RawData)
		ends = append(ends, off)
	}
	for i := len(ends) / 2; i < len(ends)-1; i++ {
		// a boundary is safe when the next message starts with the start byte or the previous one was a typed frame
		if ends[i] < len(in) && in[ends[i]] == 0xd3 {
			return ends[i]
		}
	}
	return len(in)
}

func runPipeline(w *tr.Writer, in []byte, caps []int, mode string, hist [][]interface{}, rng *rand.Rand, procs int) {
	ref := sequentialRef(in, c09Start)
	ncons := 0
	chans := make([]chan handler.Message, len(caps))
	consIdx := map[int]int{} // channel index (0-based) -> consumer number (1-based among non-nil)
	for i, c := range caps {
		if c >= 0 {
			chans[i] = make(chan handler.Message, c)
			ncons++
			consIdx[i] = ncons
		}
	}
	w.Emit(c09Case{"case", ref, ncons, mode, caps, len(in), procs})
	base := runtime.NumGoroutine()
	var ctl *gate.Controller
	if mode == "gated" {
		ctl = gate.New()
		verifhook.Handler = ctl.At
	} else {
		verifhook.Handler = gate.Free(rng.Int63(), 10+rng.Intn(60))
	}
	var emu sync.Mutex
	var cwg sync.WaitGroup
	quit := make(chan struct{})
	lagIdx := -1
	for i := range chans {
		if chans[i] != nil && (lagIdx < 0 || rng.Intn(2) == 0) {
			lagIdx = i
		}
	}
	for i := range chans {
		if chans[i] == nil {
			continue
		}
		cwg.Add(1)
		go func(i int) {
			defer cwg.Done()
			slow := mode != "gated" && rng != nil && i%2 == 1
			lag := mode == "lag" && i == lagIdx
			nrecv := 0
			for {
				if ctl != nil {
					ctl.At("cons.recv", i+1)
				}
				var m handler.Message
				select {
				case m = <-chans[i]:
				case <-quit:
					// drain what is already buffered, then stop
					select {
					case m = <-chans[i]:
					default:
						return
					}
				}
				mm := m
				emu.Lock()
				w.Emit(c09Recv{"recv", consIdx[i], msgDigest(&mm)})
				emu.Unlock()
				nrecv++
				if lag && nrecv == 3 && atomic.AddInt32(&longStallsLeft, -1) >= 0 {
					// once or twice per run of the check: the lagging consumer stops receiving for more than a second in
					// mid-stream and then carries on - it still gets every message, in order
					time.Sleep(1300 * time.Millisecond)
				}
				if lag {
					time.Sleep(1500 * time.Microsecond) // a consumer that falls far behind the others
				} else if slow {
					time.Sleep(20 * time.Microsecond)
				}
			}
		}(i)
	}
	end := c09End{Ev: "end"}
	ret := make(chan string, 1)
	var reader io.Reader = bytes.NewReader(in)
	if mode == "free" || mode == "lag" {
		// chunk sizes from one byte to more than any internal buffer; a third of the readers hand over their
		// last chunk together with io.EOF
		max := []int{1 + rng.Intn(64), 1 + rng.Intn(64), 4096, 1 << 16}[rng.Intn(4)]
		cr := &chunkReader{append([]byte{}, in...), rand.New(rand.NewSource(rng.Int63())), max, rng.Intn(3) == 0, nil}
		if rng.Intn(3) == 0 {
			// the input does not end, it breaks: what was read before is still delivered to every consumer
			cr.failure = &os.PathError{Op: "read", Path: "/dev/ttyUSB0", Err: syscall.EIO}
		}
		reader = cr
	}
	go func() {
		ret <- tr.Recover(func() {
			ac := appcore.New(&jsonconfig.Config{}, chans)
			if mode == "twice" {
				// the same AppCore handles two inputs in a row, as AppCore.HandleMessages does when the device reconnects
				half := splitAtMessageBoundary(in)
				ac.HandleMessagesUntilEOF(c09Start, bufio.NewReader(bytes.NewReader(in[:half])))
				ac.HandleMessagesUntilEOF(c09Start, bufio.NewReader(bytes.NewReader(in[half:])))
				return
			}
			ac.HandleMessagesUntilEOF(c09Start, bufio.NewReader(reader))
		})
	}()
	returned := false
	if mode == "gated" {
		// replay the schedule: each step is <<process, hook, arg>>
		for _, st := range hist {
			proc, point := st[0].(string), st[1].(string)
			arg := int(st[2].(float64))
			role := proc
			if proc == "C" {
				role = fmt.Sprintf("C%d", arg)
			}
			a := ctl.Await(role, 5*time.Second)
			if a == nil {
				end.Drift = fmt.Sprintf("step %d: %s never reached hook %s (model says enabled)", end.Steps, role, point)
				break
			}
			if a.Point != point || (point == "fanout.send" && a.Arg+1 != arg) {
				end.Drift = fmt.Sprintf("step %d: %s is at %s(%d), model expects %s(%d)", end.Steps, role, a.Point, a.Arg, point, arg)
				break
			}
			ctl.Grant(role)
			end.Steps++
		}
		select {
		case p := <-ret:
			returned, end.Panic = true, p
		case <-time.After(3 * time.Second):
			if end.Drift == "" {
				end.Drift = "schedule exhausted but the call has not returned"
			}
		}
		ctl.Open()
	}
	if !returned {
		select {
		case p := <-ret:
			returned, end.Panic = true, p
		case <-time.After(30 * time.Second):
		}
	}
	end.Returned = returned
	if returned {
		// give late senders (there should be none) a moment, then stop the consumers
		time.Sleep(2 * time.Millisecond)
		close(quit)
		done := make(chan struct{})
		go func() { cwg.Wait(); close(done) }()
		select {
		case <-done:
		case <-time.After(10 * time.Second):
		}
		end.Leaked = settle(base)
	}
	verifhook.Handler = nil
	lastDrift = end.Drift != ""
	emu.Lock()
	w.Emit(end)
	emu.Unlock()
}

func c09(args []string) {
	rng := tr.Rand(9)
	thorough := tr.Thorough()
	switch args[0] {
	case "inputs":
		w := tr.NewWriter(args[1])
		defer w.Close()
		// small inputs: junk + shortest frames + truncated tail, a few capacity configurations
		f1 := gen.Frame(rng, 1005, 1, 0)
		f2 := gen.Frame(rng, 1230, 2, 0)
		bad := append([]byte{}, f1...)
		bad[len(bad)-1] ^= 1
		ins := [][]byte{
			gen.Cat([]byte{0x41}, f1, []byte{0xd3, 0x00}),
			gen.Cat(f1, f2),
			gen.Cat([]byte{0x41, 0x42}, bad, []byte{0x43}),
			{},
			{0xd3},
			gen.Cat(f2, []byte{0x0a}),
		}
		capsets := [][]int{{0, -1, 1}, {0}, {1, 0, 2}, {-1, 2}, {0, 0}}
		n := 3
		if thorough {
			n = len(ins) * len(capsets)
		}
		k := 0
		for i, in := range ins {
			for j, cs := range capsets {
				if !thorough && (i*2+j+int(tr.Seed()))%5 != 0 && !(i < 2 && j == i) {
					continue
				}
				w.Emit(c09Input{tr.Ints(in), cs})
				k++
			}
		}
		_ = n
	case "timing":
		// interactions whose outcome depends on exactly who runs when: played in a build WITHOUT the race detector (its
		// instrumentation changes the scheduling that these interactions rely on), seeded and fixed ones
		w := tr.NewWriter(args[1])
		defer w.Close()
		nscr := 60
		if thorough {
			nscr = 300
		}
		for i := 0; i < nscr; i++ {
			runScriptedV(w, rng, []int{1, 1, 1, 2}[i%4], i)
		}
		for i := 0; i < nscr/2; i++ {
			runScripted(w, rng, []int{1, 1, 4, 2}[i%4])
		}
	case "run":
		w := tr.NewWriter(args[2])
		defer w.Close()
		f, err := os.Open(args[1])
		if err != nil {
			panic(err)
		}
		sc := bufio.NewScanner(f)
		sc.Buffer(make([]byte, 1<<22), 1<<22)
		for sc.Scan() {
			var b c09Beh
			if json.Unmarshal(sc.Bytes(), &b) != nil {
				continue
			}
			in := make([]byte, len(b.In))
			for i, x := range b.In {
				in[i] = byte(x)
			}
			if driftStreak >= 3 {
				continue // the code no longer follows the model's hook structure: replaying more schedules proves nothing
			}
			before := w.N
			runPipeline(w, in, b.Caps, "gated", b.Hist, rng, runtime.GOMAXPROCS(0))
			_ = before
			if lastDrift {
				driftStreak++
			} else {
				driftStreak = 0
			}
		}
		f.Close()
		// free-running cases: GOMAXPROCS 1..16, seeded yields at the hooks, chunked readers, slow consumers
		nfree := 60
		if thorough {
			nfree = 600
		}
		procs := []int{1, 2, 4, 16}
		// one consumer lags far behind while many short messages arrive (30-80 messages)
		nlag := 6
		if thorough {
			nlag = 40
		}
		for i := 0; i < nlag; i++ {
			var in []byte
			n := 30 + rng.Intn(50)
			for k := 0; k < n; k++ {
				in = append(in, gen.Frame(rng, gen.TypeClass(rng, k), 1+rng.Intn(12), 0)...)
				if k%7 == 3 {
					in = append(in, gen.Junk(rng, 1+rng.Intn(5), 1)...)
				}
			}
			capsets := [][]int{{0, -1, 1, -1}, {0, 0}, {2, 0, 0}, {0}, {1, 8}}
			p := procs[i%len(procs)]
			old := runtime.GOMAXPROCS(p)
			runPipeline(w, in, capsets[i%len(capsets)], "lag", nil, rng, p)
			runtime.GOMAXPROCS(old)
		}
		nscr := 60
		if thorough {
			nscr = 300
		}
		if v, err := strconv.Atoi(os.Getenv("VERIF_C09_NSCR")); err == nil && v > 0 {
			nscr = v
		}
		for i := 0; i < nscr; i++ {
			runScripted(w, rng, []int{1, 1, 4, 2}[i%4])
		}

		nq := 4
		if thorough {
			nq = 16
		}
		for i := 0; i < nq; i++ {
			runQuiet(w, rng, i+int(tr.Seed())*(nq%8))
		}
		for i := 0; i < 2*nq; i++ {
			runTransient(w, rng, i)
		}
		for i := 0; i < 4+nfree/20; i++ {
			in := wellStructuredFrames(rng, 6+rng.Intn(10))
			capsets := [][]int{{-1, 0, 1}, {0, -1, -1, 2}, {-1, -1, 0}, {1, 0}}
			runPipeline(w, in, capsets[i%len(capsets)], "twice", nil, rng, runtime.GOMAXPROCS(0))
		}
		for i := 0; i < nfree; i++ {
			var in []byte
			switch i % 4 {
			case 0:
				in = wellStructured(rng, 2+rng.Intn(10), 120, i)
			case 1:
				in = gen.Garbage(rng, rng.Intn(400))
			case 2:
				in = gen.Cat(wellStructured(rng, 1+rng.Intn(4), 60, i), gen.Garbage(rng, rng.Intn(30)), wellStructured(rng, rng.Intn(4), 300, i+1))
			default:
				in = gen.Cat(gen.Frame(rng, gen.TypeClass(rng, i), 1+rng.Intn(1023), 0), gen.Junk(rng, rng.Intn(10), 1))
			}
			capsets := [][]int{{0}, {0, -1, 1}, {4, 0, 0}, {-1, -1, 2}, {0, 1, 2, 8}, {}}
			p := procs[i%len(procs)]
			old := runtime.GOMAXPROCS(p)
			runPipeline(w, in, capsets[rng.Intn(len(capsets))], "free", nil, rng, p)
			runtime.GOMAXPROCS(old)
		}
	}
}

func wellStructuredFrames(rng *rand.Rand, n int) []byte {
	var in []byte
	for k := 0; k < n; k++ {
		in = append(in, gen.Frame(rng, gen.TypeClass(rng, k), 1+rng.Intn(40), 0)...)
	}
	return in
}

// ---- scripted interaction: feed / receive / settle steps at a coarse grain (no hooks needed) -------------------
type feedSource struct {
	mu     sync.Mutex
	cond   *sync.Cond
	data   []byte
	closed bool
}

func newFeedSource() *feedSource { f := &feedSource{}; f.cond = sync.NewCond(&f.mu); return f }
func (f *feedSource) Feed(b []byte) {
	f.mu.Lock()
	f.data = append(f.data, b...)
	f.mu.Unlock()
	f.cond.Signal()
}
func (f *feedSource) Close() { f.mu.Lock(); f.closed = true; f.mu.Unlock(); f.cond.Signal() }
func (f *feedSource) Read(p []byte) (int, error) {
	f.mu.Lock()
	defer f.mu.Unlock()
	for len(f.data) == 0 && !f.closed {
		f.cond.Wait()
	}
	if len(f.data) == 0 {
		return 0, io.EOF
	}
	n := copy(p, f.data)
	f.data = f.data[n:]
	return n, nil
}

// runScripted: a slow consumer with a one-slot channel receives in bursts chosen by a seeded script while the
// input arrives in bursts chosen by the same script, with settle pauses in between; a second consumer never blocks.
var scriptedMissing int

func runScripted(w *tr.Writer, rng *rand.Rand, procs int) { runScriptedV(w, rng, procs, -1) }

// runScriptedV: variant >= 0 plays one fixed interaction instead of a seeded one: a backlog builds up behind a full
// one-slot consumer, everything settles, then the consumer takes `nrecv` messages back to back and new input arrives
// at that very moment - the instant at which anything that queues per consumer has a batch in flight
func runScriptedV(w *tr.Writer, rng *rand.Rand, procs int, variant int) {
	if scriptedMissing >= 6 {
		return // messages have gone missing in six interactions already: the rest would only wait for more that never come
	}
	nmsg := 6 + rng.Intn(8)
	if variant >= 0 {
		nmsg = 8
	}
	frames := make([][]byte, nmsg)
	var in []byte
	for i := range frames {
		frames[i] = gen.Frame(rng, 4001+i, 6, 0)
		in = append(in, frames[i]...)
	}
	ref := sequentialRef(in, c09Start)
	slow := make(chan handler.Message, 1)
	fast := make(chan handler.Message, 4*nmsg)
	chans := []chan handler.Message{slow, nil, fast}
	w.Emit(c09Case{"case", ref, 2, "scripted", []int{1, -1, 4 * nmsg}, len(in), procs})
	old := runtime.GOMAXPROCS(procs)
	defer runtime.GOMAXPROCS(old)
	base := runtime.NumGoroutine()
	verifhook.Handler = nil
	src := newFeedSource()
	ret := make(chan string, 1)
	go func() {
		ret <- tr.Recover(func() {
			appcore.New(&jsonconfig.Config{}, chans).HandleMessagesUntilEOF(c09Start, bufio.NewReader(src))
		})
	}()
	settle := 15 * time.Millisecond
	if v, err := strconv.Atoi(os.Getenv("VERIF_C09_SETTLE_MS")); err == nil && v > 0 {
		settle = time.Duration(v) * time.Millisecond
	}
	fed, got := 0, 0
	end := c09End{Ev: "end"}
	// what the slow consumer receives is kept in memory and written out afterwards: writing (a system call) between two
	// receives would hand the processor to the other goroutines exactly when the interaction wants them not to run
	var slowGot []handler.Message
	recv := func() bool {
		select {
		case m := <-slow:
			slowGot = append(slowGot, m)
			got++
			return true
		case <-time.After(2 * time.Second):
			scriptedMissing++
			return false
		}
	}
	feed := func(k int) {
		for i := 0; i < k && fed < nmsg; i++ {
			src.Feed(frames[fed])
			fed++
		}
	}
	// build a backlog first: several messages arrive while the slow consumer takes nothing
	if variant >= 0 {
		feed(3 + variant%3)
		time.Sleep(settle)
		ok := true
		for i := 0; i < 1+(variant/3)%2 && ok; i++ { // the consumer takes one or two ...
			ok = recv()
		}
		time.Sleep(settle) // ... whatever queues behind it moves up and comes to rest ...
		for i := 0; i < 2+(variant/6)%2 && ok && got < fed; i++ { // ... then it takes two or three back to back ...
			ok = recv()
		}
		feed(1 + (variant/12)%2) // ... and at that very moment new input arrives
		time.Sleep(settle)
		for ok && got < fed {
			ok = recv()
		}
	} else {
		feed(3 + rng.Intn(3))
		time.Sleep(settle)
	}
	for fed < nmsg || got < nmsg {
		if got < fed {
			// the consumer takes a burst ...
			k := 1 + rng.Intn(minInt2(3, fed-got))
			ok := true
			for i := 0; i < k && ok; i++ {
				ok = recv()
			}
			if !ok {
				break // reported as missing messages
			}
			// ... and new input arrives either at that very moment or after things have settled
			if rng.Intn(2) == 0 {
				time.Sleep(settle)
			}
		}
		if fed < nmsg && (got >= fed || rng.Intn(3) != 0) {
			feed(1 + rng.Intn(2))
			if rng.Intn(4) != 0 {
				time.Sleep(settle)
			}
		}
	}
	src.Close()
	select {
	case p := <-ret:
		end.Returned, end.Panic = true, p
	case <-time.After(10 * time.Second):
	}
	for i := range slowGot {
		w.Emit(c09Recv{"recv", 1, msgDigest(&slowGot[i])})
	}
	drainQuiet(w, fast, 2)
	drainQuiet(w, slow, 1) // anything still sitting in the slow channel
	if end.Returned {
		end.Leaked = settle2(base)
	}
	w.Emit(end)
}

// runQuiet: the source goes quiet for a while at a chosen byte - in the middle of a run of other data, one byte into
// it, inside a leader, inside a payload, between two frames - and then carries on: what the consumers get is the
// same as from a source that never pauses
func runQuiet(w *tr.Writer, rng *rand.Rand, variant int) {
	a := gen.Frame(rng, 1077, 20+rng.Intn(20), 0)
	j := gen.Junk(rng, 16+rng.Intn(10), 1)
	b := gen.Frame(rng, 1005, 19, 0)
	c := gen.Frame(rng, 1230, 5, 0)
	in := gen.Cat(a, j, b, c)
	at := []int{len(a) + len(j)/2, len(a) + 1, len(a) + len(j) + 2, len(a) + len(j) + 9, len(a) + len(j) + len(b), len(a) + len(j) - 1, 1, len(in) - 2}[variant%8]
	quiet := []time.Duration{350, 700, 250}[variant%3] * time.Millisecond
	ref := sequentialRef(in, c09Start)
	c1 := make(chan handler.Message, 16)
	c2 := make(chan handler.Message)
	chans := []chan handler.Message{c1, c2}
	w.Emit(c09Case{"case", ref, 2, fmt.Sprintf("quiet%dms@%d", quiet/time.Millisecond, at), []int{16, 0}, len(in), runtime.GOMAXPROCS(0)})
	base := runtime.NumGoroutine()
	verifhook.Handler = nil
	src := newFeedSource()
	ret := make(chan string, 1)
	go func() {
		ret <- tr.Recover(func() {
			appcore.New(&jsonconfig.Config{}, chans).HandleMessagesUntilEOF(c09Start, bufio.NewReader(src))
		})
	}()
	var got2 []handler.Message
	var mu2 sync.Mutex
	quit2 := make(chan struct{})
	done2 := make(chan struct{})
	go func() {
		defer close(done2)
		for {
			select {
			case m := <-c2:
				mu2.Lock()
				got2 = append(got2, m)
				mu2.Unlock()
			case <-quit2:
				return
			}
		}
	}()
	src.Feed(in[:at])
	time.Sleep(quiet)
	src.Feed(in[at:])
	src.Close()
	end := c09End{Ev: "end"}
	select {
	case p := <-ret:
		end.Returned, end.Panic = true, p
	case <-time.After(10 * time.Second):
	}
	if end.Returned {
		time.Sleep(5 * time.Millisecond)
		close(quit2)
		<-done2
		drainQuiet(w, c1, 1)
		mu2.Lock()
		for i := range got2 {
			w.Emit(c09Recv{"recv", 2, msgDigest(&got2[i])})
		}
		mu2.Unlock()
		end.Leaked = settle2(base)
	}
	w.Emit(end)
}

// pausingSource: data, a transient end-of-file, more data some time later, another transient end-of-file, the rest, and
// then end-of-file for good - what a serial device that drops out for a moment looks like to the reader
type pausingSource struct {
	parts [][]byte
	gaps  []time.Duration // sleep before handing over part i
	i     int
	eof   bool  // the next Read reports a transient EOF
	soft  error // what a transient interruption looks like (io.EOF or a read time-out); the final one is io.EOF
	twice bool  // every interruption lasts for two reads in a row
	again bool
}

func (p *pausingSource) Read(b []byte) (int, error) {
	if p.eof {
		if p.twice && !p.again {
			p.again = true // one more read finds the source still silent
		} else {
			p.eof, p.again = false, false
		}
		if p.soft != nil {
			return 0, p.soft
		}
		return 0, io.EOF
	}
	if p.i >= len(p.parts) {
		return 0, io.EOF
	}
	if len(p.parts[p.i]) == 0 {
		p.i++
		p.eof = false
		if p.i >= len(p.parts) {
			return 0, io.EOF
		}
	}
	if p.gaps[p.i] > 0 {
		time.Sleep(p.gaps[p.i])
		p.gaps[p.i] = 0
	}
	n := copy(b, p.parts[p.i])
	p.parts[p.i] = p.parts[p.i][n:]
	if len(p.parts[p.i]) == 0 {
		p.i++
		p.eof = p.i < len(p.parts)
	}
	return n, nil
}

// runTransient: the pipeline with a NON-ZERO end-of-file tolerance (with and without a system log) reading a source
// that reports end-of-file for a moment twice, the second time later than one tolerance after the first
func runTransient(w *tr.Writer, rng *rand.Rand, variant int) {
	var in []byte
	for k := 0; k < 7; k++ {
		in = append(in, gen.Frame(rng, []int{1077, 1005, 1087, 1230, 1097, 1006, 1127}[k], 20+rng.Intn(60), 0)...)
		if k%3 == 1 {
			in = append(in, gen.Junk(rng, 12, 1)...)
		}
	}
	c1, c2 := len(in)/3+variant%5, 2*len(in)/3+variant%7
	src := &pausingSource{parts: [][]byte{append([]byte{}, in[:c1]...), append([]byte{}, in[c1:c2]...), append([]byte{}, in[c2:]...)},
		gaps: []time.Duration{0, 110 * time.Millisecond, time.Duration(20*(variant/2%2)) * time.Millisecond}}
	cfg := &jsonconfig.Config{TimeoutOnEOFMilliSeconds: 70, WaitTimeOnEOFMilliseconds: 5}
	if variant%2 == 1 {
		cfg.SystemLog = log.New(io.Discard, "", 0)
	}
	if variant%4 >= 2 {
		cfg.WaitTimeOnEOFMilliseconds = 0 // retry at once
	}
	src.twice = variant%3 == 0
	if variant%4 == 2 || variant%8 == 5 {
		src.soft = errors.New("read /dev/ttyACM0: i/o timeout") // the interruptions are read time-outs, not end-of-file
	}
	ref := sequentialRef(in, c09Start)
	ch := make(chan handler.Message, 64)
	w.Emit(c09Case{"case", ref, 1, fmt.Sprintf("transient-eof log=%v wait=%d timeouts=%v twice=%v", cfg.SystemLog != nil, cfg.WaitTimeOnEOFMilliseconds, src.soft != nil, src.twice), []int{64}, len(in), runtime.GOMAXPROCS(0)})
	base := runtime.NumGoroutine()
	verifhook.Handler = nil
	ret := make(chan string, 1)
	go func() {
		ret <- tr.Recover(func() {
			appcore.New(cfg, []chan handler.Message{ch}).HandleMessagesUntilEOF(c09Start, bufio.NewReader(src))
		})
	}()
	end := c09End{Ev: "end"}
	select {
	case p := <-ret:
		end.Returned, end.Panic = true, p
	case <-time.After(10 * time.Second):
	}
	if end.Returned {
		drainQuiet(w, ch, 1)
		end.Leaked = settle2(base)
	}
	w.Emit(end)
}

// drainQuiet reads what a consumer channel still delivers after the call has returned, until it has been quiet for
// 5 ms.  The channel is never closed by the driver: a pipeline that still sends after its return (which is what the
// extra messages show) would panic on a closed channel and take the driver with it.
func drainQuiet(w *tr.Writer, ch chan handler.Message, cons int) {
	for {
		select {
		case m := <-ch:
			mm := m
			w.Emit(c09Recv{"recv", cons, msgDigest(&mm)})
		case <-time.After(5 * time.Millisecond):
			return
		}
	}
}

func settle2(base int) int { return settle(base) }
func minInt2(a, b int) int {
	if a < b {
		return a
	}
	return b
}
