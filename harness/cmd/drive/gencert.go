package main

import (
	"crypto/ecdsa"
	"crypto/elliptic"
	"crypto/rand"
	"crypto/x509"
	"crypto/x509/pkix"
	"encoding/pem"
	"math/big"
	"net"
	"os"
	"time"
)

// gencert <prefix>: writes <prefix>.pem and <prefix>.key, a self-signed certificate for 127.0.0.1 / localhost
// (the harness-owned TLS upstream server of the C19 sessions; nothing else is available offline to make one)
func init() { commands["gencert"] = gencert }

func gencert(args []string) {
	key, err := ecdsa.GenerateKey(elliptic.P256(), rand.Reader)
	if err != nil {
		panic(err)
	}
	tpl := &x509.Certificate{
		SerialNumber: big.NewInt(19), Subject: pkix.Name{CommonName: "localhost", Organization: []string{"verif"}},
		NotBefore: time.Now().Add(-time.Hour), NotAfter: time.Now().Add(240 * time.Hour),
		KeyUsage: x509.KeyUsageDigitalSignature | x509.KeyUsageCertSign, ExtKeyUsage: []x509.ExtKeyUsage{x509.ExtKeyUsageServerAuth},
		BasicConstraintsValid: true, IsCA: true, IPAddresses: []net.IP{net.ParseIP("127.0.0.1")}, DNSNames: []string{"localhost"},
	}
	der, err := x509.CreateCertificate(rand.Reader, tpl, tpl, &key.PublicKey, key)
	if err != nil {
		panic(err)
	}
	kb, err := x509.MarshalPKCS8PrivateKey(key)
	if err != nil {
		panic(err)
	}
	if err := os.WriteFile(args[0]+".pem", pem.EncodeToMemory(&pem.Block{Type: "CERTIFICATE", Bytes: der}), 0o600); err != nil {
		panic(err)
	}
	if err := os.WriteFile(args[0]+".key", pem.EncodeToMemory(&pem.Block{Type: "PRIVATE KEY", Bytes: kb}), 0o600); err != nil {
		panic(err)
	}
}
