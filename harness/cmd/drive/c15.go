package main

import (
	"strconv"
	"runtime"
	"reflect"
	"os"
	"bufio"
	"bytes"
	"crypto/sha1"
	"encoding/hex"
	"encoding/json"
	"fmt"
	"log/slog"
	"math/rand"
	"strings"
	"sync"
	"time"

	"github.com/goblimey/go-ntrip/apps/appcore"
	"github.com/goblimey/go-ntrip/jsonconfig"
	"github.com/goblimey/go-ntrip/rtcm/handler"
	"verifharness/internal/gen"
	"verifharness/internal/tr"
)

func init() { commands["c15"] = c15 }

type c15Event struct {
	Key      string `json:"key"`
	Text     string `json:"text"`
	Dec      string `json:"dec"`
	RawSame  bool   `json:"raw_same"`
	Scenario string `json:"scenario"`
	Panic    string `json:"panic"`
	Sample   string `json:"sample,omitempty"`
}

func dig(b []byte) string { h := sha1.Sum(b); return hex.EncodeToString(h[:8]) }

// stripTime removes the MSM time lines, which by design follow the handler's time history.
func stripTime(s string) string {
	var out []string
	for _, ln := range strings.Split(s, "\n") {
		if strings.HasPrefix(ln, "Time ") || strings.HasPrefix(ln, "Start of ") {
			continue
		}
		out = append(out, ln)
	}
	return strings.Join(out, "\n")
}

func timeErr(s string) bool {
	return strings.Contains(s, "timestamp out of range") || strings.Contains(s, "milliseconds in timestamp")
}

// observe displays m (twice) and returns the event for it.
func observe(m *handler.Message, key, scenario string) c15Event {
	ev := c15Event{Key: key, Scenario: scenario}
	if m == nil {
		ev.Panic = "GetMessage panicked or returned nil"
		return ev
	}
	ev.Panic = tr.Recover(func() {
		before := append([]byte{}, m.RawData...)
		// (String() decodes the message if that has not been done; doing it first lets the decoded fields be compared
		// before and after the display)
		decBefore := ""
		if m.Readable == nil {
			handler.Analyse(m)
		}
		if m.Readable != nil {
			if b, err := json.Marshal(m.Readable); err == nil {
				decBefore = dig(b)
			}
		}
		t1 := m.String()
		t2 := m.String()
		dec := "nil"
		if m.Readable != nil {
			if b, err := json.Marshal(m.Readable); err == nil {
				dec = dig(b)
			} else {
				dec = "unmarshalable:" + fmt.Sprintf("%T", m.Readable)
			}
		}
		if m.ErrorMessage != "" {
			dec += "|err:" + m.ErrorMessage
		}
		decAfter := ""
		if m.Readable != nil {
			if b, err := json.Marshal(m.Readable); err == nil {
				decAfter = dig(b)
			}
		}
		// displaying changes neither the raw bytes nor the decoded fields, and gives the same text again
		ev.RawSame = bytes.Equal(before, m.RawData) && t1 == t2 && decBefore == decAfter
		ev.Text = dig([]byte(stripTime(t1)))
		ev.Dec = dec
	})
	return ev
}

// safeGet never lets a panic of the library kill the driver: a nil message is reported by observe.
func safeGet(h *handler.Handler, f []byte) (m *handler.Message) {
	defer func() {
		if recover() != nil {
			m = nil
		}
	}()
	m, _ = h.GetMessage(f)
	return m
}

// twinBase: station-description frames (1005 / 1006) that differ from a base frame in exactly one field,
// each placed directly after (and, in the reverse pass, directly before) the base: anything that recognises
// "the same message as last time" by looking at part of it shows the neighbour's values
func twinBase(rng *rand.Rand, typ int) [][]byte {
	type f struct {
		station, itrf, i1, i2, i3, h uint64
		x, y, z                      int64
	}
	b := f{uint64(rng.Intn(4096)), uint64(rng.Intn(64)), uint64(rng.Intn(16)), uint64(rng.Intn(4)), uint64(rng.Intn(4)), uint64(rng.Intn(65536)),
		rng.Int63n(1<<38) - 1<<37, rng.Int63n(1<<38) - 1<<37, rng.Int63n(1<<38) - 1<<37}
	enc := func(v f) []byte {
		return tr.Frame(build1005(typ, v.station, v.itrf, v.i1, v.x, v.i2, v.y, v.i3, v.z, v.h, nil, typ == 1006))
	}
	var out [][]byte
	variants := []func(v *f){
		func(v *f) { v.station ^= 1 }, func(v *f) { v.itrf ^= 1 }, func(v *f) { v.i1 ^= 1 }, func(v *f) { v.i1 ^= 8 },
		func(v *f) { v.x ^= 1 }, func(v *f) { v.x ^= 1 << 20 }, func(v *f) { v.i2 ^= 1 }, func(v *f) { v.y ^= 1 }, func(v *f) { v.y ^= 1 << 30 },
		func(v *f) { v.i3 ^= 2 }, func(v *f) { v.z ^= 1 }, func(v *f) { v.z ^= 1 << 7 }, func(v *f) { v.z ^= 1 << 8 }, func(v *f) { v.z ^= 1 << 23 },
		func(v *f) { v.z ^= 1 << 24 }, func(v *f) { v.h ^= 1 }, func(v *f) { v.h ^= 1 << 15 },
	}
	for _, mut := range variants {
		v := b
		mut(&v)
		if typ == 1005 && v.h != b.h {
			continue
		}
		out = append(out, enc(b), enc(v))
	}
	return out
}

func c15Pool(rng *rand.Rand, n int) [][]byte {
	var pool [][]byte
	add := func(f []byte) { pool = append(pool, f) }
	for _, typ := range []int{1005, 1006} {
		tw := twinBase(rng, typ)
		if !tr.Thorough() {
			// a seeded third of the variants in the quick tier, always including the last bytes of the message
			var sel [][]byte
			for i := 0; i+1 < len(tw); i += 2 {
				if (i/2+int(tr.Seed()))%3 == 0 || i/2 >= len(tw)/2-4 {
					sel = append(sel, tw[i], tw[i+1])
				}
			}
			tw = sel
		}
		pool = append(pool, tw...)
	}
	// CRC-valid 1005 / 1006 frames that are too short to decode (the decode error is part of what is displayed)
	for _, typ := range []int{1005, 1006} {
		for _, plen := range []int{3, 10, 18, 20} {
			if typ == 1005 && plen > 18 {
				continue
			}
			add(gen.Frame(rng, typ, plen, 0))
		}
	}
	n += len(pool)
	for i := 0; len(pool) < n; i++ {
		switch i % 9 {
		case 0:
			add(tr.Frame(build1005(1005, uint64(rng.Intn(4096)), 3, 1, rng.Int63n(1<<38)-1<<37, 1, rng.Int63n(1<<38)-1<<37, 2, rng.Int63n(1<<38)-1<<37, 0, nil, false)))
		case 1:
			add(tr.Frame(build1005(1006, uint64(rng.Intn(4096)), 3, 1, rng.Int63n(1<<38)-1<<37, 1, rng.Int63n(1<<38)-1<<37, 2, rng.Int63n(1<<38)-1<<37, uint64(rng.Intn(65536)), nil, true)))
		case 2, 3, 4:
			typ := gen.MSMTypes[rng.Intn(len(gen.MSMTypes))]
			s := gen.RandomMSM(rng, typ, []int{7, 5, 3, 4, 1}[rng.Intn(5)], -1, uint64(rng.Intn(2)), rng.Intn(3))
			if len(s.Cell) == 0 {
				s.MM = 0
			}
			p := s.Encode()
			if len(p) <= 1023 {
				add(tr.Frame(p))
			}
		case 5:
			if i%18 == 5 {
				for _, p := range gen.TwinMSMs(rng, gen.MSMTypes[rng.Intn(14)]) {
					if len(p) <= 1023 {
						add(tr.Frame(p))
					}
				}
				break
			}
			add(gen.Frame(rng, []int{1230, 1019, 4095, 0, 1033}[rng.Intn(5)], 1+rng.Intn(80), 0))
		case 6:
			j := gen.Junk(rng, 1+rng.Intn(60), rng.Intn(3))
			switch rng.Intn(4) {
			case 0:
				j = append(j, '\r', '\n') // a complete text line
			case 1:
				j = append(j, 0, 0)
			case 2:
				j = append([]byte(" \t"), append(j, ' ', ' ')...)
			}
			add(j)
		case 7:
			// malformed but CRC-valid: MSM type with random payload
			add(gen.Frame(rng, gen.MSMTypes[rng.Intn(14)], 1+rng.Intn(120), 0))
		default:
			f := gen.Frame(rng, 1005, 19, 0)
			f[len(f)-1] ^= 0x55 // CRC failure
			add(f)
		}
	}
	// every MSM type occurs at least once (the "first" processes below start with the frames of one constellation)
	for _, typ := range gen.MSMTypes {
		sm := gen.RandomMSM(rng, typ, 3, -1, 0, 1)
		if len(sm.Cell) == 0 {
			sm.MM = 0
		}
		if p := sm.Encode(); len(p) <= 1023 {
			add(tr.Frame(p))
		}
	}
	return pool
}

// frameType: the 12-bit message type of a frame (-1 for anything too short)
func frameType(f []byte) int {
	if len(f) < 5 || f[0] != 0xd3 {
		return -1
	}
	return int(f[3])<<4 | int(f[4])>>4
}

func c15(args []string) {
	w := tr.NewWriter(args[0])
	defer w.Close()
	rng := tr.Rand(15)
	thorough := tr.Thorough()
	npool, reps := 80, 3
	if thorough {
		npool, reps = 400, 6
	}
	pool := c15Pool(rng, npool)
	start := time.Date(2023, 5, 10, 12, 0, 0, 0, time.UTC)
	levels := []slog.Level{slog.LevelDebug, slog.LevelInfo, slog.LevelWarn} // (Warn: a level no display code mentions)
	var mu sync.Mutex
	emit := func(ev c15Event) {
		mu.Lock()
		w.Emit(ev)
		mu.Unlock()
	}
	key := func(i int, lv slog.Level) string { return fmt.Sprintf("%d/%s", i, lv) }

	if len(args) > 1 && args[1] == "concurrent" {
		// a fresh process whose very first use of the library is concurrent: 8 goroutines display frames (incl. many
		// message types that no table knows) at the same time, so anything filled lazily on first use is hit in parallel
		var unknown [][]byte
		for _, t := range []int{1041, 1047, 1069, 1129, 1133, 1138, 1228, 1231, 1250, 1300, 2000, 2047, 2048, 3000, 3376, 4000, 4060, 4096 - 1 - 40} {
			unknown = append(unknown, gen.Frame(rng, t, 4+rng.Intn(30), 0))
		}
		all := append(append([][]byte{}, unknown...), pool...)
		canon := make([]c15Event, len(all))
		var wg sync.WaitGroup
		for g := 0; g < 8; g++ {
			wg.Add(1)
			go func(g int) {
				defer wg.Done()
				lv := levels[g%2]
				h := handler.New(start, lv)
				for k := g; k < len(all); k += 4 { // every frame is displayed by two goroutines
					m := safeGet(h, all[k])
					emit(observe(m, fmt.Sprintf("c%d/%s", k, lv), "concurrent-first-use"))
				}
			}(g)
		}
		wg.Wait()
		_ = canon
		// then sequentially: the text must be what the concurrent first use produced
		for _, lv := range levels {
			for k, f := range all {
				h := handler.New(start, lv)
				emit(observe(safeGet(h, f), fmt.Sprintf("c%d/%s", k, lv), "sequential-after-concurrent"))
			}
		}
		return
	}
	if len(args) > 2 && args[1] == "first" {
		// a fresh process whose first MSM frames belong to ONE constellation (MSM4 type given, MSM7 = +3): whatever the
		// library sets up on first use (tables per constellation, shared between constellations or not) is set up by these
		// frames; then the whole pool.  Every frame must decode and display as in every other process.
		t4, _ := strconv.Atoi(args[2])
		for _, lv := range levels {
			for pass := 0; pass < 2; pass++ {
				for i, f := range pool {
					ft := frameType(f)
					if pass == 0 && ft != t4 && ft != t4+3 {
						continue
					}
					h := handler.New(start, lv)
					m := safeGet(h, f)
					emit(observe(m, key(i, lv), fmt.Sprintf("fresh-process-first-%d", t4)))
				}
			}
		}
		return
	}
	if len(args) > 1 && args[1] == "reverse" {
		// a fresh process that meets the frames in the opposite order: anything process-wide that is
		// learnt from earlier frames (caches, memo tables) now learns from the other neighbour first
		for _, lv := range levels {
			for i := len(pool) - 1; i >= 0; i-- {
				h := handler.New(start, lv)
				m := safeGet(h, pool[i])
				emit(observe(m, key(i, lv), "fresh-process-reverse-order"))
			}
		}
		return
	}
	// A: canonical pass - each frame first on a fresh handler
	for _, lv := range levels {
		for i, f := range pool {
			h := handler.New(start, lv)
			m := safeGet(h, f)
			ev := observe(m, key(i, lv), "fresh")
			if i%25 == 0 {
				ev.Sample = stripTime(m.String())
				if len(ev.Sample) > 600 {
					ev.Sample = ev.Sample[:600]
				}
			}
			emit(ev)
		}
	}
	// B: one handler, all orders and repetitions
	for r := 0; r < reps; r++ {
		for _, lv := range levels {
			h := handler.New(start, lv)
			order := rng.Perm(len(pool))
			var held *handler.Message
			heldIdx := 0
			for n, i := range order {
				m := safeGet(h, pool[i])
				if n%3 == 1 && m != nil {
					// decode now, display only after the next frame has been decoded and displayed
					if p := tr.Recover(func() { handler.Analyse(m) }); p != "" {
						emit(c15Event{Key: key(i, lv), Scenario: "after-others", Panic: p})
						continue
					}
					held, heldIdx = m, i
					continue
				}
				emit(observe(m, key(i, lv), "after-others"))
				if held != nil {
					emit(observe(held, key(heldIdx, lv), "delayed-display"))
					held = nil
				}
				if n%5 == 0 { // immediate repetition
					m2 := safeGet(h, pool[i])
					emit(observe(m2, key(i, lv), "repeat"))
				}
			}
		}
	}
	// C: several handlers and display calls in parallel goroutines, sharing the pool's frames
	var wg sync.WaitGroup
	ng := 8
	for g := 0; g < ng; g++ {
		wg.Add(1)
		go func(g int) {
			defer wg.Done()
			lr := rand.New(rand.NewSource(tr.Seed()*31 + int64(g)))
			lv := levels[g%2]
			h := handler.New(start, lv)
			for _, i := range lr.Perm(len(pool)) {
				m := safeGet(h, pool[i])
				if m == nil {
					continue
				}
				// a message value shared by copying, as the fan-out does: both copies are displayed in parallel
				c1, c2 := *m, *m
				var w2 sync.WaitGroup
				w2.Add(2)
				go func() { defer w2.Done(); emit(observe(&c1, key(i, lv), "parallel-copy")) }()
				go func() { defer w2.Done(); emit(observe(&c2, key(i, lv), "parallel-copy")) }()
				w2.Wait()
			}
		}(g)
	}
	wg.Wait()

	// B2: Message.Copy: the copy displays like the original, belongs to whoever made it (writing into its bytes leaves the
	// original alone) and making it leaves the original alone
	for _, lv := range levels {
		for i, f := range pool {
			h := handler.New(start, lv)
			m := safeGet(h, f)
			if m == nil {
				continue
			}
			before := append([]byte{}, m.RawData...)
			var c handler.Message
			if p := tr.Recover(func() { c = m.Copy() }); p != "" {
				emit(c15Event{Key: key(i, lv), Scenario: "copy", Panic: p})
				continue
			}
			// (Copy leaves out the log level and the time fields of an MSM - the lines the property excludes; they are carried over here so that
			// the rest of the display can be compared line by line)
			c.LogLevel, c.SentAt, c.StartOfWeek, c.Timestamp = m.LogLevel, m.SentAt, m.StartOfWeek, m.Timestamp
			if !bytes.Equal(before, m.RawData) {
				emit(c15Event{Key: key(i, lv), Scenario: "copy", Panic: "Copy changed the bytes of the message it copied"})
				copy(m.RawData, before)
			}
			ce := observe(&c, key(i, lv), "copy")
			if os.Getenv("VERIF_C15_DEBUG") != "" {
				ce.Sample = stripTime(c.String())
			}
			emit(ce)
			for k := range c.RawData {
				c.RawData[k] ^= 0xff // the owner of the copy scribbles on it
			}
			emit(observe(m, key(i, lv), "original-after-copy-was-overwritten"))
			// a copy made AFTER the original has been displayed: its owner wipes everything it can reach through it
			// (the decoded object too); the original still reads as before
			var c2 handler.Message
			if p := tr.Recover(func() { c2 = m.Copy() }); p == "" {
				for k := range c2.RawData {
					c2.RawData[k] = 0
				}
				if rv := reflect.ValueOf(c2.Readable); rv.IsValid() && rv.Kind() == reflect.Ptr && !rv.IsNil() && rv.Elem().CanSet() {
					rv.Elem().Set(reflect.Zero(rv.Elem().Type()))
				}
				emit(observe(m, key(i, lv), "original-after-late-copy-was-wiped"))
			}
		}
	}

	// C2: frames that lie next to each other in ONE buffer of the caller (a file read in one go), taken out with the direct
	// GetMessage path: decoding and displaying one of them must neither change what the next one is nor touch the buffer
	for _, lv := range levels {
		h := handler.New(start, lv)
		for i := 0; i+1 < len(pool); i++ {
			f, g := pool[i], pool[i+1]
			if len(f) < 6 || len(g) < 6 || f[0] != 0xd3 || g[0] != 0xd3 {
				continue
			}
			m0 := safeGet(handler.New(start, lv), f)
			if m0 == nil || m0.MessageType < 0 || len(m0.RawData) != len(f) {
				continue // not a frame GetMessage takes whole
			}
			buf := append(append(append(make([]byte, 0, len(f)+len(g)+24), f...), g...), bytes.Repeat([]byte{0xa5}, 24)...)
			before := append([]byte{}, buf...)
			m1 := safeGet(h, buf)
			emit(observe(m1, key(i, lv), "shared-buffer-first"))
			m2 := safeGet(h, buf[len(f):len(f)+len(g)])
			emit(observe(m2, key(i+1, lv), "shared-buffer-second"))
			if !bytes.Equal(before, buf) {
				emit(c15Event{Key: key(i, lv), Scenario: "shared-buffer", Panic: "the caller's buffer was written to while decoding / displaying"})
			}
		}
	}

	// D: the real fan-out (appcore): consumer 1 displays and scribbles on its own copy,
	// consumer 2 must still see the canonical message; the file handler decodes at debug level.
	var stream []byte
	var idx []int
	prevJunk := true // (a stream starting with other data is fine, two runs of other data in a row would merge)
	for i, f := range pool {
		isFrame := len(f) > 0 && f[0] == 0xd3
		if isFrame && i%2 == 0 { // CRC-failing frames arrive as non-RTCM with the same bytes
			stream = append(stream, f...)
			idx = append(idx, i)
			prevJunk = false
		} else if !isFrame && len(f) > 0 && !prevJunk && i%3 == 0 && bytes.IndexByte(f, 0xd3) < 0 {
			stream = append(stream, f...) // a run of other data between frames
			idx = append(idx, i)
			prevJunk = true
		}
	}
	ch1 := make(chan handler.Message)
	ch2 := make(chan handler.Message, 4)
	cfg := &jsonconfig.Config{}
	ac := appcore.New(cfg, []chan handler.Message{ch1, nil, ch2})
	done := make(chan struct{})
	go func() {
		ac.HandleMessagesUntilEOF(start, bufio.NewReader(bytes.NewReader(stream)))
		close(ch1)
		close(ch2)
		close(done)
	}()
	var cw sync.WaitGroup
	cw.Add(2)
	go func() { // consumer 1: display, then scribble on everything that is its own
		defer cw.Done()
		for m := range ch1 {
			mm := m
			if p := tr.Recover(func() { _ = mm.String() }); p != "" {
				emit(c15Event{Key: "fanout-consumer1", Scenario: "fanout", Panic: p})
			}
			mm.MessageType = -7
			mm.ErrorMessage = "scribble"
			mm.Readable = "scribble"
			mm.SentAt, mm.StartOfWeek = "x", "y"
			mm.LogLevel = slog.LevelError
			mm.RawData = nil
		}
	}()
	go func() { // consumer 2 keeps every message until the stream has ended (a queue of recent messages) and looks then
		defer cw.Done()
		var held []handler.Message
		for m := range ch2 {
			held = append(held, m)
			time.Sleep(50 * time.Microsecond) // let consumer 1 get ahead
		}
		n := len(held)
		for k := range held {
			if k < len(idx) {
				emit(observe(&held[k], key(idx[k], slog.LevelDebug), "fanout"))
			}
		}
		if n != len(idx) {
			emit(c15Event{Key: "fanout-count", Text: fmt.Sprint(n), Dec: fmt.Sprint(len(idx)), RawSame: n == len(idx), Scenario: "fanout"})
		}
	}()
	cw.Wait()
	<-done

	// D2: the same stream to three consumers that all look (each keeps its messages until the stream has ended): what a
	// consumer sees does not depend on its position in the list or on how many others there are
	{
		chs := []chan handler.Message{make(chan handler.Message, 2), make(chan handler.Message), make(chan handler.Message, 64)}
		ac3 := appcore.New(&jsonconfig.Config{}, chs)
		done3 := make(chan struct{})
		go func() {
			ac3.HandleMessagesUntilEOF(start, bufio.NewReader(bytes.NewReader(stream)))
			for _, c := range chs {
				close(c)
			}
			close(done3)
		}()
		var w3 sync.WaitGroup
		for pos := range chs {
			w3.Add(1)
			go func(pos int) {
				defer w3.Done()
				var held []handler.Message
				for m := range chs[pos] {
					held = append(held, m)
				}
				for k := range held {
					if k < len(idx) {
						emit(observe(&held[k], key(idx[k], slog.LevelDebug), fmt.Sprintf("fanout-consumer-%d-of-3", pos+1)))
					}
				}
				if len(held) != len(idx) {
					emit(c15Event{Key: "fanout-count", Text: fmt.Sprint(len(held)), Dec: fmt.Sprint(len(idx)), RawSame: false, Scenario: "fanout"})
				}
			}(pos)
		}
		w3.Wait()
		<-done3
	}

	// E: two handlers framing two different streams at the same time (two serial ports in one program): each gets its own
	// bytes, whole, in order - nothing of the framing machinery is shared between handlers
	var streamB []byte
	var idxB []int
	for i, f := range pool {
		if len(f) > 0 && f[0] == 0xd3 && i%2 == 1 {
			streamB = append(streamB, f...)
			idxB = append(idxB, i)
		}
	}
	type side struct {
		in   []byte
		idx  []int
		held []handler.Message
	}
	sides := []*side{{in: stream, idx: idx}, {in: streamB, idx: idxB}}
	var ew sync.WaitGroup
	for _, sd := range sides {
		ew.Add(1)
		go func(sd *side) {
			defer ew.Done()
			chIn := make(chan byte)
			chOut := make(chan handler.Message, 8)
			h := handler.New(start, slog.LevelDebug)
			go func() {
				defer func() { recover() }()
				h.HandleMessages(chIn, chOut)
			}()
			go func() {
				for k, b := range sd.in {
					chIn <- b
					if k%97 == 0 {
						runtime.Gosched()
					}
				}
				close(chIn)
			}()
			deadline := time.After(60 * time.Second)
			for {
				select {
				case m, ok := <-chOut:
					if !ok {
						return
					}
					sd.held = append(sd.held, m)
				case <-deadline:
					return
				}
			}
		}(sd)
	}
	ew.Wait()
	for si, sd := range sides {
		for k := range sd.held {
			if k < len(sd.idx) {
				emit(observe(&sd.held[k], key(sd.idx[k], slog.LevelDebug), "two-streams-at-once"))
			}
		}
		if len(sd.held) != len(sd.idx) {
			emit(c15Event{Key: fmt.Sprint("two-streams-count-", si), Text: fmt.Sprint(len(sd.held)), Dec: fmt.Sprint(len(sd.idx)), RawSame: false, Scenario: "two-streams-at-once"})
		}
	}
}
