package main

import (
	"fmt"
	"bytes"
	"log/slog"
	"math/rand"
	"regexp"
	"strconv"
	"strings"
	"time"

	"github.com/goblimey/go-ntrip/rtcm/handler"
	"github.com/goblimey/go-ntrip/rtcm/type1005"
	"github.com/goblimey/go-ntrip/rtcm/type1006"
	"verifharness/internal/tr"
)

func init() { commands["c05"] = c05 }

type c05Fields struct {
	Station int    `json:"station"`
	ITRF    int    `json:"itrf"`
	Ign1    int    `json:"ign1"`
	Ign2    int    `json:"ign2"`
	Ign3    int    `json:"ign3"`
	X       [3]int `json:"x"`
	Y       [3]int `json:"y"`
	Z       [3]int `json:"z"`
	Height  int    `json:"height"`
}
type c05Tok struct {
	Neg bool `json:"neg"`
	Q   int  `json:"q"`
	R   int  `json:"r"`
}
type c05Event struct {
	Raw    []int     `json:"raw"`
	Dec    int       `json:"dec"`
	Path   string    `json:"path"`
	Level  string    `json:"level"`
	Cls    string    `json:"cls"`
	Err    string    `json:"err"`
	Fields c05Fields `json:"fields"`
	Tokens []c05Tok  `json:"tokens"`
	Text   string    `json:"text,omitempty"`
	Panic  string    `json:"panic"`
}

var decRe = regexp.MustCompile(`-?\d+\.\d+`)

func parseTokens(s string) []c05Tok {
	toks := []c05Tok{}
	for _, m := range decRe.FindAllString(s, -1) {
		neg := strings.HasPrefix(m, "-")
		m = strings.TrimPrefix(m, "-")
		parts := strings.SplitN(m, ".", 2)
		q, _ := strconv.Atoi(parts[0])
		r := -1
		if len(parts[1]) == 4 { // exactly four decimals, else r = -1 (never equal to the spec's value)
			r, _ = strconv.Atoi(parts[1])
		}
		toks = append(toks, c05Tok{neg, q, r})
	}
	return toks
}

func build1005(typ int, station, itrf, ign1 uint64, x int64, ign2 uint64, y int64, ign3 uint64, z int64, height uint64, trailing []byte, withHeight bool) []byte {
	var w tr.BitWriter
	w.Put(uint64(typ), 12)
	w.Put(station, 12)
	w.Put(itrf, 6)
	w.Put(ign1, 4)
	w.PutS(x, 38)
	w.Put(ign2, 2)
	w.PutS(y, 38)
	w.Put(ign3, 2)
	w.PutS(z, 38)
	if withHeight {
		w.Put(height, 16)
	}
	return append(w.Buf, trailing...)
}

var c05HeldText func() string
var c05HeldWas string
var c05Before []byte
var c05Shared = make([]byte, 96)
var c05Calls = 0

func c05Call(w *tr.Writer, frame []byte, dec int, lv slog.Level, path, cls string) {
	ev := c05Event{Raw: tr.Ints(frame), Dec: dec, Path: path, Cls: cls, Level: lv.String(), Tokens: []c05Tok{}}
	ev.Panic = tr.Recover(func() {
		var m5 *type1005.Message
		var m6 *type1006.Message
		var err error
		if path == "decoder" {
			// every second call hands the frame over in ONE buffer that is refilled in place (a reused read buffer):
			// what is decoded is what the buffer holds now
			c05Calls++
			if c05Calls%2 == 0 && len(frame) <= len(c05Shared) {
				n := copy(c05Shared, frame)
				frame = c05Shared[:n]
			}
			c05Before = append([]byte{}, frame...)
			if dec == 1005 {
				m5, err = type1005.GetMessage(frame, lv)
			} else {
				m6, err = type1006.GetMessage(frame, lv)
			}
		} else {
			c05Before = append([]byte{}, frame...)
			h := handler.New(time.Date(2023, 5, 10, 0, 0, 0, 0, time.UTC), lv)
			m, e := h.GetMessage(frame)
			err = e
			if m != nil && err == nil {
				handler.Analyse(m)
				switch r := m.Readable.(type) {
				case *type1005.Message:
					if dec == 1005 {
						m5 = r
					}
				case *type1006.Message:
					if dec == 1006 {
						m6 = r
					}
				}
				if m5 == nil && m6 == nil {
					err = errString("handler did not produce a " + strconv.Itoa(dec) + " message: " + m.ErrorMessage)
				}
			}
		}
		if err != nil {
			ev.Err = err.Error()
			if ev.Err == "" {
				ev.Err = "error"
			}
			return
		}
		var text string
		if m5 != nil {
			ev.Fields = c05Fields{int(m5.StationID), int(m5.ITRFRealisationYear), int(m5.Ignored1), int(m5.Ignored2), int(m5.Ignored3),
				tr.Limbs(uint64(m5.AntennaRefX)), tr.Limbs(uint64(m5.AntennaRefY)), tr.Limbs(uint64(m5.AntennaRefZ)), 0}
			text = m5.String()
		} else {
			ev.Fields = c05Fields{int(m6.StationID), int(m6.ITRFRealisationYear), int(m6.Ignored1), int(m6.Ignored2), int(m6.Ignored3),
				tr.Limbs(uint64(m6.AntennaRefX)), tr.Limbs(uint64(m6.AntennaRefY)), tr.Limbs(uint64(m6.AntennaRefZ)), int(m6.AntennaHeight)}
			text = m6.String()
		}
		ev.Tokens = parseTokens(text)
		if w.N%50 == 0 {
			ev.Text = text
		}
		// history: the message decoded by the PREVIOUS call is still held by its user: it reads as it did then
		if c05HeldText != nil && c05HeldText() != c05HeldWas {
			ev.Err = "an earlier decoded message changed when this one was decoded"
		}
		if m5 != nil {
			c05HeldText, c05HeldWas = func() string { return fmt.Sprint(*m5, m5.String()) }, fmt.Sprint(*m5, text)
		} else {
			c05HeldText, c05HeldWas = func() string { return fmt.Sprint(*m6, m6.String()) }, fmt.Sprint(*m6, text)
		}
		// and decoding only reads the frame
		if !bytes.Equal(frame, c05Before) {
			ev.Err = "the frame handed to the decoder was modified"
		}
	})
	w.Emit(ev)
}

func c05(args []string) {
	w := tr.NewWriter(args[0])
	defer w.Close()
	rng := tr.Rand(5)
	thorough := tr.Thorough()
	ext := []int64{-(1 << 37), -(1 << 37) + 1, -1, 0, 1, 1<<37 - 1, 1<<37 - 2, 0x15555555555, -0x15555555556, 10000, -10000, 9999, -9999, 3472, -3472, -3473, 137438950000 - 1<<37}
	coord := func(i int) int64 {
		if i < len(ext) {
			return ext[i]
		}
		return rng.Int63n(1<<38) - 1<<37
	}
	levels := []slog.Level{slog.LevelDebug, slog.LevelInfo, slog.LevelDebug, slog.LevelWarn, slog.LevelInfo, slog.LevelError} // (the level is configuration: decoding and the displayed numbers do not depend on it)
	n := 0
	emit := func(typ int, x, y, z int64, h uint64, trailing int, cls string) {
		tb := make([]byte, trailing)
		if trailing > 0 && n%2 == 0 {
			rng.Read(tb)
		}
		p := build1005(typ, uint64(rng.Intn(4096)), uint64(rng.Intn(64)), uint64(rng.Intn(16)), x, uint64(rng.Intn(4)), y, uint64(rng.Intn(4)), z, h, tb, typ == 1006)
		f := tr.Frame(p)
		lv := levels[n%len(levels)]
		c05Call(w, f, typ, lv, "decoder", cls)
		if n%3 == 0 {
			c05Call(w, f, typ, levels[(n+1)%len(levels)], "handler", cls)
		}
		n++
	}
	// all extremes in every coordinate position, both types
	for _, typ := range []int{1005, 1006} {
		for i := range ext {
			for j := range ext {
				if !thorough && (i+j)%4 != 0 && i != j {
					continue
				}
				emit(typ, ext[i], ext[j], ext[(i+j)%len(ext)], uint64([]int{0, 1, 65535, 9999, 10000, 32768}[(i+j)%6]), (i*j)%4, "extremes")
			}
		}
	}
	nr := 600
	if thorough {
		nr = 12000
	}
	for i := 0; i < nr; i++ {
		typ := 1005 + i%2
		emit(typ, coord(rng.Intn(40)), coord(rng.Intn(40)), coord(rng.Intn(40)), uint64(rng.Intn(65536)), rng.Intn(12)*(i%3), "random")
	}
	// long frames: trailing bytes up to the largest payload (1023), payload lengths around the multiples of 256
	for _, typ := range []int{1005, 1006} {
		base := 19
		if typ == 1006 {
			base = 21
		}
		for _, plen := range []int{255, 256, 257, 256 + base - 1, 256 + base, 511, 512, 512 + base, 767, 768, 768 + base - 1, 768 + base, 1000, 1023} {
			if plen < base {
				continue
			}
			emit(typ, coord(rng.Intn(40)), coord(rng.Intn(40)), coord(rng.Intn(40)), uint64(rng.Intn(65536)), plen-base, "long")
		}
	}
	// every truncation length and wrong types
	for _, typ := range []int{1005, 1006} {
		full := build1005(typ, 1, 2, 3, coord(20), 1, coord(21), 2, coord(22), 777, make([]byte, 6), typ == 1006)
		for L := 1; L <= len(full); L++ {
			f := tr.Frame(full[:L])
			for _, dec := range []int{1005, 1006} {
				c05Call(w, f, dec, levels[L%2], "decoder", "truncation")
				c05Call(w, f, dec, levels[(L+1)%2], "handler", "truncation")
			}
		}
		// raw buffers shorter than any frame (nil, 0..8 bytes) handed to the decoder directly: an error, never a panic
		for n := -1; n <= 8; n++ {
			var raw []byte
			if n >= 0 {
				raw = append([]byte{}, tr.Frame(full)[:n]...)
			}
			c05Call(w, raw, typ, levels[(n+1)%2], "decoder", "tiny buffer")
		}
		for _, wrong := range []int{1004, 1007, 1077, 1074, 0, 4095, 1005 ^ 1, 1006 ^ 2} {
			p := build1005(wrong, 1, 2, 3, coord(23), 1, coord(24), 2, coord(25), 5, nil, true)
			f := tr.Frame(p)
			c05Call(w, f, typ, slog.LevelDebug, "decoder", "wrongtype")
			c05Call(w, f, typ, slog.LevelInfo, "handler", "wrongtype")
		}
	}
	_ = rand.Int
}
