package main

import (
	"sync/atomic"
	"syscall"
	"fmt"
	"bufio"
	"encoding/json"
	"errors"
	"io"
	"log"
	"os"
	"strings"
	"sync"
	"time"

	filehandler "github.com/goblimey/go-ntrip/file_handler"
	"github.com/goblimey/go-ntrip/jsonconfig"
	"github.com/goblimey/go-ntrip/rtcm/handler"
	"verifharness/internal/gen"
	"verifharness/internal/tr"
)

// C13: transient EOF / read time-outs.  A scripted io.Reader sits underneath the
// real bufio.Reader and the real file_handler.Handle.
func init() { commands["c13"] = c13 }

type scriptEntry struct {
	K string `json:"k"`
	B int    `json:"b"`
}
type c13Msg struct {
	Type int   `json:"type"`
	Raw  []int `json:"raw"`
}
type c13Event struct {
	Script    []scriptEntry `json:"script"`
	TZ        bool          `json:"tz"`
	TimeoutMs int           `json:"timeout_ms"`
	WaitMs    int           `json:"wait_ms"`
	Chunked   bool          `json:"chunked"`
	Combined  bool          `json:"combined"`
	BufSize   int           `json:"bufsize"`
	Msgs      []c13Msg      `json:"msgs"`
	Closed    bool          `json:"closed"`
	Returned  bool          `json:"returned"`
	Ret       string        `json:"ret"`
	Stalled   bool          `json:"stalled"`
	Cls       string        `json:"cls"`
	ElapsedMs int           `json:"elapsed_ms"`
}

type scriptedReader struct {
	script  []scriptEntry
	pos     int
	chunked bool
	combine bool // a data run and the error that follows it are returned by the same Read call
	calls   []time.Time
	kinds   []string
	halted  int32
}

var errTimeout = errors.New("read /dev/ttyACM0: i/o timeout")

// the shapes in which a read time-out reaches the caller: a plain text, the os package's deadline error inside a
// *PathError (what a file with a read deadline returns), and errors that say "i/o timeout" while wrapping a
// lower-level cause that does not
var timeoutErrors = []error{
	errTimeout,
	&os.PathError{Op: "read", Path: "/dev/ttyACM0", Err: os.ErrDeadlineExceeded},
	fmt.Errorf("read /dev/ttyUSB0: i/o timeout: %w", syscall.EAGAIN),
	&os.PathError{Op: "read", Path: "/dev/ttyACM0", Err: fmt.Errorf("i/o timeout (%w)", syscall.ETIMEDOUT)},
	fmt.Errorf("serial port: %w", errTimeout),
}

func (r *scriptedReader) timeoutErr() error { return timeoutErrors[(r.pos+len(r.script))%len(timeoutErrors)] }
// other read errors: none of them is io.EOF and none contains "i/o timeout"
var otherErrors = []error{
	errors.New("read /dev/ttyACM0: input/output error"),
	errors.New("read /dev/ttyACM0: i/o error"),
	io.ErrUnexpectedEOF,
	errors.New("read tcp 10.0.0.1:2101: connection timed out"),
	errors.New("read /dev/ttyACM0: bad file descriptor"),
	errors.New("EOF "),
	io.ErrClosedPipe,
}

func (r *scriptedReader) halt() { atomic.StoreInt32(&r.halted, 1) }

func (r *scriptedReader) Read(p []byte) (int, error) {
	if atomic.LoadInt32(&r.halted) != 0 {
		select {} // the case is over
	}
	if len(r.calls) > 200000 {
		time.Sleep(time.Millisecond) // a reader that is polled without pause: keep the log of calls bounded in time and space
	}
	r.calls = append(r.calls, time.Now())
	if r.pos >= len(r.script) {
		r.kinds = append(r.kinds, "E")
		return 0, io.EOF
	}
	e := r.script[r.pos]
	switch e.K {
	case "D":
		n := 0
		for r.pos < len(r.script) && r.script[r.pos].K == "D" && n < len(p) {
			p[n] = byte(r.script[r.pos].B)
			n++
			r.pos++
			if !r.chunked {
				break
			}
		}
		r.kinds = append(r.kinds, "D")
		if r.combine && r.pos < len(r.script) && r.script[r.pos].K != "D" {
			k := r.script[r.pos].K
			r.pos++
			r.kinds = append(r.kinds, k)
			r.calls = append(r.calls, time.Now())
			switch k {
			case "E":
				return n, io.EOF
			case "T":
				return n, r.timeoutErr()
			}
			return n, otherErrors[(r.pos+len(r.script))%len(otherErrors)]
		}
		return n, nil
	case "E":
		r.pos++
		r.kinds = append(r.kinds, "E")
		return 0, io.EOF
	case "T":
		r.pos++
		r.kinds = append(r.kinds, "T")
		return 0, r.timeoutErr()
	}
	r.pos++
	r.kinds = append(r.kinds, "X")
	return 0, otherErrors[(r.pos+len(r.script))%len(otherErrors)]
}

func runScript(script []scriptEntry, timeoutMs, waitMs int, chunked bool, cls string, combine bool, bufSize int) c13Event {
	ev := c13Event{Script: script, TZ: timeoutMs == 0, TimeoutMs: timeoutMs, WaitMs: waitMs, Chunked: chunked, Combined: combine, BufSize: bufSize, Msgs: []c13Msg{}, Cls: cls}
	sr := &scriptedReader{script: script, chunked: chunked, combine: combine}
	cfg := &jsonconfig.Config{TimeoutOnEOFMilliSeconds: uint(timeoutMs), WaitTimeOnEOFMilliseconds: uint(waitMs)}
	if (len(script)+waitMs)%2 == 1 {
		cfg.SystemLog = log.New(io.Discard, "", 0) // both with and without a system log configured
	}
	ch := make(chan handler.Message)
	fh := filehandler.New(ch, cfg)
	ret := make(chan error, 1)
	t0 := time.Now()
	br := bufio.NewReader(sr)
	if bufSize > 0 {
		br = bufio.NewReaderSize(sr, bufSize)
	}
	// the machine's own hiccups are measured independently of the code under test: a ticker that should wake every
	// millisecond records the longest delay it saw during the run
	var worstLag int64
	stopLag := make(chan struct{})
	go func() {
		last := time.Now()
		for {
			select {
			case <-stopLag:
				return
			case <-time.After(time.Millisecond):
			}
			now := time.Now()
			if d := int64(now.Sub(last)) - int64(time.Millisecond); d > atomic.LoadInt64(&worstLag) {
				atomic.StoreInt64(&worstLag, d)
			}
			last = now
		}
	}()
	panicked := make(chan struct{})
	go func() {
		// a panic inside Handle is the handler failing on this script (reported as "did not return, did not close"), not
		// the end of the driver
		defer func() {
			if p := recover(); p != nil {
				close(panicked)
			}
		}()
		ret <- fh.Handle(time.Date(2023, 5, 10, 12, 0, 0, 0, time.UTC), br)
	}()
	deadline := time.After(20 * time.Second)
collect:
	for {
		select {
		case m, ok := <-ch:
			if !ok {
				ev.Closed = true
				break collect
			}
			ev.Msgs = append(ev.Msgs, c13Msg{m.MessageType, tr.Ints(m.RawData)})
		case <-panicked:
			break collect
		case <-deadline:
			break collect
		}
	}
	select {
	case err := <-ret:
		ev.Returned = true
		switch {
		case err == nil:
			ev.Ret = "nil"
		case err == io.EOF:
			ev.Ret = "E"
		case strings.Contains(err.Error(), "i/o timeout"):
			ev.Ret = "T"
		default:
			ev.Ret = "X"
		}
	case <-panicked:
	case <-time.After(5 * time.Second):
	}
	ev.ElapsedMs = int(time.Since(t0).Milliseconds())
	close(stopLag)
	sr.halt() // a handler that never gives up must not keep the processor (or the memory) busy after the verdict
	// stall guard: if the machine itself stalled for more than a third of the tolerance during this run, the run proves
	// nothing (the pauses the code under test makes between its reads are its own business and are NOT looked at here)
	if timeoutMs > 0 && time.Duration(atomic.LoadInt64(&worstLag)) > time.Duration(timeoutMs)*time.Millisecond/3 {
		ev.Stalled = true
	}
	return ev
}

func dataScript(b []byte) []scriptEntry {
	s := make([]scriptEntry, len(b))
	for i, x := range b {
		s[i] = scriptEntry{"D", int(x)}
	}
	return s
}

func soft(run string) []scriptEntry {
	s := []scriptEntry{}
	for _, c := range run {
		s = append(s, scriptEntry{string(c), 0})
	}
	return s
}

func c13(args []string) {
	w := tr.NewWriter(args[0])
	defer w.Close()
	rng := tr.Rand(13)
	thorough := tr.Thorough()
	type job struct {
		script       []scriptEntry
		timeout, wait int
		chunked      bool
		cls          string
	}
	var jobs []job
	const T = 60
	streamA := gen.Cat(gen.Frame(rng, 1005, 19, 0), gen.Frame(rng, 1230, 3, 2), gen.Junk(rng, 3, 1))
	streams := [][]byte{streamA}
	if thorough {
		streams = append(streams, gen.Cat(gen.Junk(rng, 2, 0), gen.Frame(rng, 1077, 40, 0), []byte{0xd3, 0x00, 0x05, 1}), wellStructured(rng, 4, 30, 3))
	}
	runs := []string{"E", "T", "EE", "ET", "TE", "TT", "EEE", "TTT", "ETE", "X", "EX", "EEX"}
	for si, st := range streams {
		for p := 0; p <= len(st); p++ {
			for ri, run := range runs {
				if !thorough && (p+ri+int(tr.Seed()))%3 != 0 && !(p == 0 || p == len(st) || p == 3 || p == 25) {
					continue
				}
				sc := append(append(dataScript(st[:p]), soft(run)...), dataScript(st[p:])...)
				jobs = append(jobs, job{sc, T, (p + ri) % 2, (p+ri+si)%3 == 0, "one-run@" + run})
				if ri < 4 && (p%4 == 0 || thorough) {
					jobs = append(jobs, job{sc, 0, 1, false, "zero-tolerance@" + run})
				}
			}
		}
		// two interruptions, and interruptions at both frame boundaries
		for k := 0; k < 12; k++ {
			p1 := rng.Intn(len(st) + 1)
			p2 := p1 + rng.Intn(len(st)-p1+1)
			r1, r2 := runs[rng.Intn(6)], runs[rng.Intn(len(runs))]
			sc := append(append(append(append(dataScript(st[:p1]), soft(r1)...), dataScript(st[p1:p2])...), soft(r2)...), dataScript(st[p2:])...)
			jobs = append(jobs, job{sc, T, k % 2, k%3 == 0, "two-runs"})
		}
	}
	// scripts simulated by TLC from FileReader_MC (direction B): D entries take the stream's bytes in order
	if len(args) > 1 {
		f, err := os.Open(args[1])
		if err == nil {
			dec := json.NewDecoder(f)
			for {
				var s struct {
					Script []string `json:"script"`
				}
				if dec.Decode(&s) != nil {
					break
				}
				var sc []scriptEntry
				di := 0
				for _, k := range s.Script {
					if k == "D" {
						// each abstract D stands for a few real bytes so that frames complete
						for j := 0; j < 7 && di < len(streamA); j++ {
							sc = append(sc, scriptEntry{"D", int(streamA[di])})
							di++
						}
					} else {
						sc = append(sc, scriptEntry{k, 0})
					}
				}
				jobs = append(jobs, job{sc, T, 1, false, "tlc"})
			}
			f.Close()
		}
	}
	// run in parallel: every double interruption costs one tolerance sleep by the code's design
	results := make([]c13Event, len(jobs))
	var wg sync.WaitGroup
	sem := make(chan struct{}, 24)
	for i, j := range jobs {
		wg.Add(1)
		sem <- struct{}{}
		go func(i int, j job) {
			defer wg.Done()
			defer func() { <-sem }()
			// the source may hand over data and the error in one Read result; bufio buffer sizes vary
			combine := i%3 == 1
			bufSize := []int{0, 16, 0, 8192, 0, 0}[i%6]
			ev := runScript(j.script, j.timeout, j.wait, j.chunked || combine, j.cls, combine, bufSize)
			if ev.Stalled { // once more, alone
				ev = runScript(j.script, j.timeout, j.wait, j.chunked || combine, j.cls, combine, bufSize)
			}
			results[i] = ev
		}(i, j)
	}
	wg.Wait()
	for _, ev := range results {
		w.Emit(ev)
	}
}
