package main

import (
	"fmt"
	"strconv"
	"regexp"
	"sync/atomic"
	"sync"
	"log/slog"
	"strings"
	"time"

	"github.com/goblimey/go-ntrip/rtcm/handler"
	"github.com/goblimey/go-ntrip/rtcm/type1005"
	"github.com/goblimey/go-ntrip/rtcm/type1006"
	msm4 "github.com/goblimey/go-ntrip/rtcm/type_msm4/message"
	msm7 "github.com/goblimey/go-ntrip/rtcm/type_msm7/message"
	"github.com/goblimey/go-ntrip/rtcm/utils"
	"verifharness/internal/tr"
)

func init() { commands["c20"] = c20 }

type c20Event struct {
	T         int    `json:"t"`
	MSM4      bool   `json:"msm4"`
	MSM7      bool   `json:"msm7"`
	MSM       bool   `json:"msm"`
	Con       string `json:"con"`
	ConRaw    string `json:"con_raw"`
	Title     bool   `json:"title"`
	Display   bool   `json:"display"`
	GMType    int    `json:"gm_type"`
	TS        int    `json:"ts"`
	TimeLines bool   `json:"timelines"`
	Acc4      bool   `json:"acc_msm4"`
	Acc7      bool   `json:"acc_msm7"`
	Acc1005   bool   `json:"acc_1005"`
	Acc1006   bool   `json:"acc_1006"`
	Attempt   string `json:"attempt"`
	Panic     string `json:"panic"`
}

func normCon(s string) string {
	s = strings.ToLower(s)
	for _, tok := range []string{"gps", "glonass", "galileo", "sbas", "qzss", "beidou", "navic"} {
		if strings.Contains(s, tok) {
			return tok
		}
	}
	return ""
}

// synthFrame: type t, station 0, timestamp 1000, everything else zero, 40-byte payload.
func synthFrame(t int) []byte {
	var w tr.BitWriter
	w.Put(uint64(t), 12)
	w.Put(0, 12)
	w.Put(1000, 30)
	for w.NBit < 40*8 {
		w.Put(0, 1)
	}
	return tr.Frame(w.Buf)
}

func attemptOf(m *handler.Message) string {
	switch m.Readable.(type) {
	case *msm4.Message:
		return "msm4"
	case *msm7.Message:
		return "msm7"
	case *type1005.Message:
		return "1005"
	case *type1006.Message:
		return "1006"
	case string:
		return "none" // the library's notice that this type is not decoded
	}
	if m.ErrorMessage != "" {
		return "failed: " + m.ErrorMessage // a decoder was tried on it and refused it
	}
	return "nothing"
}

type c20Dispatch struct {
	T       int    `json:"t"`
	T2      int    `json:"t2"`
	DeltaMs int64  `json:"delta_ms"`
	SowSame bool   `json:"sow_same"`
	Err     string `json:"err"`
}

// dispatchEvents: the time conversion of each timed MSM type must use that type's own constellation state.
func dispatchEvents(w *tr.Writer) {
	rng := tr.Rand(20)
	timed := []int{1074, 1077, 1084, 1087, 1094, 1097, 1124, 1127}
	con := func(t int) int { return (t - 1070) / 10 }
	start := time.Date(2023, 5, 10, 12, 0, 0, 0, time.UTC)
	base := time.Date(2023, 4, 30, 0, 0, 0, 0, time.UTC)
	for _, t := range timed {
		for _, t2 := range timed {
			if con(t) == con(t2) {
				continue
			}
			ev := c20Dispatch{T: t, T2: t2}
			late, early := uint(500000000), uint(1000)
			if con(t) == 1 { // GLONASS: day 5, 11:06:40
				late = 5<<27 | 40000000
			}
			h := handler.New(start, slog.LevelInfo)
			p := tr.Recover(func() {
				m1, e1 := h.GetMessage(msmFrame(rng, t, late))
				_, _ = h.GetMessage(msmFrame(rng, t2, early))
				m3, e3 := h.GetMessage(msmFrame(rng, t, late+1000))
				if e1 != nil || e3 != nil || m1 == nil || m3 == nil {
					ev.Err = "conversion failed"
					return
				}
				a, ok1 := parseShown(m1.SentAt, "Time ", base)
				b, ok3 := parseShown(m3.SentAt, "Time ", base)
				if !ok1 || !ok3 {
					ev.Err = "time not shown"
					return
				}
				ev.DeltaMs = (b[0]-a[0])*weekMs + b[1] - a[1]
				ev.SowSame = m1.StartOfWeek == m3.StartOfWeek
			})
			if p != "" {
				ev.Err = "panic: " + p
			}
			w.Emit(ev)
		}
	}
	// every timed MSM type alone across its own week roll-over: a message late in the week, one 2 s later in the next week:
	// the time advances by 2 s and the start of week by exactly one week (each type keeps and reports its OWN week)
	for _, t := range timed {
		ev := map[string]interface{}{"t": t, "roll": true, "delta_ms": -1, "sow_delta_ms": -1, "err": ""}
		late, early := uint(604799000), uint(1000)
		if con(t) == 1 { // GLONASS: day 6, 23:59:59 -> day 0, 00:00:01
			late, early = 6<<27|86399000, 0<<27|1000
		}
		h := handler.New(start, slog.LevelInfo)
		p := tr.Recover(func() {
			m1, e1 := h.GetMessage(msmFrame(rng, t, late))
			m2, e2 := h.GetMessage(msmFrame(rng, t, early))
			m3, e3 := h.GetMessage(msmFrame(rng, t, early+1000)) // and the week stays rolled over for the messages that follow
			if e1 != nil || e2 != nil || e3 != nil || m1 == nil || m2 == nil || m3 == nil {
				ev["err"] = "conversion failed"
				return
			}
			if c, ok := parseShown(m3.SentAt, "Time ", base); ok {
				if b, ok2 := parseShown(m2.SentAt, "Time ", base); ok2 && ((c[0]-b[0])*weekMs+c[1]-b[1] != 1000 || m3.StartOfWeek != m2.StartOfWeek) {
					ev["err"] = "the message after the roll-over message is not one second later in the same week"
					return
				}
			} else {
				ev["err"] = "time not shown"
				return
			}
			a, ok1 := parseShown(m1.SentAt, "Time ", base)
			b, ok2 := parseShown(m2.SentAt, "Time ", base)
			sa, ok3 := parseShown(m1.StartOfWeek, " week ", base)
			sb, ok4 := parseShown(m2.StartOfWeek, " week ", base)
			if !ok1 || !ok2 || !ok3 || !ok4 {
				ev["err"] = "time not shown"
				return
			}
			ev["delta_ms"] = (b[0]-a[0])*weekMs + b[1] - a[1]
			ev["sow_delta_ms"] = (sb[0]-sa[0])*weekMs + sb[1] - sa[1]
		})
		if p != "" {
			ev["err"] = "panic: " + p
		}
		w.Emit(ev)
	}
}

// c20Concurrent: a fresh process whose FIRST use of the library is eight goroutines displaying a frame of every
// type at once (each with its own handler and messages, nothing shared by the caller) - "every type can be
// displayed" also when two users of the library display at the same time.  One event per type.
func c20Concurrent(w *tr.Writer) {
	const G = 8
	ok := make([]int32, 4096)
	var wg sync.WaitGroup
	start := time.Date(2023, 5, 10, 12, 0, 0, 0, time.UTC)
	for g := 0; g < G; g++ {
		wg.Add(1)
		go func(g int) {
			defer wg.Done()
			h := handler.New(start, []slog.Level{slog.LevelDebug, slog.LevelInfo}[g%2])
			for i := 0; i < 4096; i++ {
				t := (i*[]int{1, 3, 5, 7, 9, 11, 13, 15}[g] + g*512) % 4096
				if p := tr.Recover(func() {
					m, _ := h.GetMessage(synthFrame(t))
					tc := utils.GetTitleAndComment(t)
					if m != nil && len(m.String()) > 0 && tc != nil && len(tc.Title) > 0 {
						atomic.AddInt32(&ok[t], 1)
					}
				}); p != "" {
					atomic.AddInt32(&ok[t], -100)
				}
			}
		}(g)
	}
	wg.Wait()
	for t := 0; t < 4096; t++ {
		w.Emit(map[string]interface{}{"t": t, "conc": true, "ok": ok[t] == G})
	}
}

var typeMention = regexp.MustCompile(`[Mm]essage type (-?\d+)`)

// ownType: whenever the display of a message says "message type N", N is the message's own type (a display that
// describes another type contradicts the classification it was dispatched on)
func ownType(display string, t int) bool {
	for _, m := range typeMention.FindAllStringSubmatch(display, -1) {
		if n, err := strconv.Atoi(m[1]); err != nil || n != t {
			return false
		}
	}
	return true
}

func c20(args []string) {
	w := tr.NewWriter(args[0])
	defer w.Close()
	if len(args) > 1 && args[1] == "concurrent" {
		c20Concurrent(w)
		return
	}
	start := time.Date(2023, 5, 10, 12, 0, 0, 0, time.UTC)
	defer func() {
		dispatchEvents(w)
		// every type once more as a frame whose CRC check fails (one bit of the CRC flipped): it is other data whatever its
		// type bits say - not typed, no timestamp extracted, no times attached
		for t := 0; t <= 4095; t++ {
			ev := map[string]interface{}{"t": t, "crc": true, "gm_type": 0, "stamped": false, "rejected": false}
			ev["panic"] = tr.Recover(func() {
				frame := synthFrame(t)
				frame[len(frame)-1-t%3] ^= 1 << uint(t%8)
				h := handler.New(start, slog.LevelDebug)
				m, err := h.GetMessage(frame)
				ev["rejected"] = err != nil
				if m != nil {
					ev["gm_type"] = m.MessageType
					ev["stamped"] = m.Timestamp != 0 || m.SentAt != "" || m.StartOfWeek != ""
				}
			})
			w.Emit(ev)
		}
	}()
	for _, level := range []slog.Level{slog.LevelDebug} {
		for t := -2; t <= 4095; t++ {
			ev := c20Event{T: t}
			ev.Panic = tr.Recover(func() {
				ev.MSM4, ev.MSM7, ev.MSM = utils.MSM4(t), utils.MSM7(t), utils.MSM(t)
				ev.ConRaw = utils.GetConstellation(t)
				ev.Con = normCon(ev.ConRaw)
				tc := utils.GetTitleAndComment(t)
				ev.Title = tc != nil && len(tc.Title) > 0
				if t < 0 {
					var m *handler.Message
					if t == utils.NonRTCMMessage {
						m = handler.NewNonRTCM([]byte("junk"))
					} else {
						m = handler.NewMessage(t, "", []byte("stop"), level)
					}
					ev.Display = len(m.String()) > 0 && len((&handler.Message{MessageType: t, RawData: []byte{1}, LogLevel: slog.LevelInfo}).String()) > 0
					ev.Attempt = "none"
					return
				}
				frame := synthFrame(t)
				h := handler.New(start, level)
				m, _ := h.GetMessage(frame)
				ev.GMType = m.MessageType
				ev.TS = int(m.Timestamp)
				_, e4 := msm4.GetMessage(frame, level)
				_, e7 := msm7.GetMessage(frame, level)
				_, e5 := type1005.GetMessage(frame, level)
				_, e6 := type1006.GetMessage(frame, level)
				ev.Acc4, ev.Acc7, ev.Acc1005, ev.Acc1006 = e4 == nil, e7 == nil, e5 == nil, e6 == nil
				handler.Analyse(m)
				ev.Attempt = attemptOf(m)
				// which decoder a type is handed to is not a matter of the log level (a configuration value: Warn, Error and
				// levels in between included)
				lv3 := []slog.Level{slog.LevelWarn, slog.LevelError, slog.LevelInfo, slog.Level(2), slog.Level(-8)}[t%5]
				m3, _ := handler.New(start, lv3).GetMessage(frame)
				handler.Analyse(m3)
				if a3 := attemptOf(m3); a3 != ev.Attempt {
					ev.Attempt = fmt.Sprintf("%s at level %v but %s at level %v", ev.Attempt, level, a3, lv3)
				}
				d1 := m.String()
				// info-level display of a second message from the same frame
				h2 := handler.New(start, slog.LevelInfo)
				m2, _ := h2.GetMessage(frame)
				d2 := m2.String()
				ev.Display = len(d1) > 0 && len(d2) > 0 && ownType(d1, t) && ownType(d2, t)
				ev.TimeLines = m.SentAt != "" && m.StartOfWeek != "" &&
					strings.Contains(d1, m.SentAt+"\n") && strings.Contains(d2, m2.StartOfWeek+"\n")
			})
			w.Emit(ev)
		}
	}
}
