//go:build verif

package main

// Injected by `go test -overlay` into apps/displayrtcm3 and apps/rtcmfilter (both are
// package main with the same HandleMessages signature).  Driven by environment:
//   VERIF_CASES  ND-JSON cases   VERIF_OUT  ND-JSON events
// Nothing here decides a verdict: events are validated by TLC.

import (
	"encoding/hex"
	"crypto/sha1"
	"errors"
	"strings"
	"bufio"
	"bytes"
	"encoding/json"
	"io"
	"math/rand"
	"os"
	"path/filepath"
	"regexp"
	"strconv"
	"sync"
	"testing"
	"time"

	"log/slog"

	"github.com/goblimey/go-ntrip/jsonconfig"
	rtcm "github.com/goblimey/go-ntrip/rtcm/handler"
)

type vCase struct {
	ID      int    `json:"id"`
	Mode    string `json:"mode"`
	In      []int  `json:"in"`
	Hold    int    `json:"hold"` // c11: which Write call to hold (1-based; <= 0 counts from the last: 0 = last, -1 = last but one)
	Display bool   `json:"display"`
	Record  bool   `json:"record"`
	Chunk   int    `json:"chunk"`
	Seed    int64  `json:"seed"`
	EOFWith bool   `json:"eof_with_data"` // the reader returns io.EOF together with the last chunk
	Cls     string `json:"cls"`
}

type vEvent map[string]interface{}

type recWriter struct {
	mu      sync.Mutex
	buf     []byte
	nwrites int
	hold    int
	held    chan struct{} // closed when the held write has arrived
	release chan struct{} // closed to let the held write proceed
	once    sync.Once
	delay   time.Duration // every write takes this long (a slow but healthy output)
	stall   time.Duration // the FIRST write takes this long (a consumer that stalls once)
}

func (w *recWriter) Write(p []byte) (int, error) {
	w.mu.Lock()
	w.nwrites++
	n := w.nwrites
	w.mu.Unlock()
	if w.hold > 0 && n == w.hold {
		w.once.Do(func() { close(w.held) })
		<-w.release
	}
	if w.delay > 0 {
		time.Sleep(w.delay)
	}
	if w.stall > 0 && n == 1 {
		time.Sleep(w.stall)
	}
	w.mu.Lock()
	w.buf = append(w.buf, p...)
	w.mu.Unlock()
	return len(p), nil
}

func (w *recWriter) snapshot() ([]byte, int) {
	w.mu.Lock()
	defer w.mu.Unlock()
	return append([]byte{}, w.buf...), w.nwrites
}

// settle waits until the writer's content has not changed for quiet.
func settle(w *recWriter, quiet, max time.Duration) {
	deadline := time.Now().Add(max)
	last, lastChange := -1, time.Now()
	for time.Now().Before(deadline) {
		b, _ := w.snapshot()
		if len(b) != last {
			last, lastChange = len(b), time.Now()
		} else if time.Since(lastChange) > quiet {
			return
		}
		time.Sleep(5 * time.Millisecond)
	}
}

type chunkedReader struct {
	data    []byte
	rng     *rand.Rand
	max     int
	eofWith bool
}

func (c *chunkedReader) Read(p []byte) (int, error) {
	if len(c.data) == 0 {
		if !c.eofWith && c.max%3 == 1 {
			// the source ends with a hard error instead of end-of-file (a dropped connection): what was read is still handled
			return 0, io.ErrUnexpectedEOF
		}
		return 0, io.EOF
	}
	n := 1 + c.rng.Intn(c.max)
	if n > len(p) {
		n = len(p)
	}
	if n > len(c.data) {
		n = len(c.data)
	}
	copy(p, c.data[:n])
	c.data = c.data[n:]
	if c.eofWith && len(c.data) == 0 {
		return n, io.EOF
	}
	return n, nil
}

func toBytes(a []int) []byte {
	b := make([]byte, len(a))
	for i, x := range a {
		b[i] = byte(x)
	}
	return b
}
func toInts(b []byte) []int {
	a := make([]int, len(b))
	for i, x := range b {
		a[i] = int(x)
	}
	return a
}

// pausingReader: data, a transient interruption (io.EOF or a read time-out), more data later, another interruption,
// the rest, then io.EOF for good
type pausingReader struct {
	parts [][]byte
	gaps  []time.Duration
	i     int
	brk   bool
	soft  error
	twice bool // every interruption lasts for two reads in a row
	again bool
}

func (p *pausingReader) Read(b []byte) (int, error) {
	if p.brk {
		if p.twice && !p.again {
			p.again = true
		} else {
			p.brk, p.again = false, false
		}
		if p.soft != nil {
			return 0, p.soft
		}
		return 0, io.EOF
	}
	for p.i < len(p.parts) && len(p.parts[p.i]) == 0 {
		p.i++
	}
	if p.i >= len(p.parts) {
		return 0, io.EOF
	}
	if p.gaps[p.i] > 0 {
		time.Sleep(p.gaps[p.i])
		p.gaps[p.i] = 0
	}
	n := copy(b, p.parts[p.i])
	p.parts[p.i] = p.parts[p.i][n:]
	if len(p.parts[p.i]) == 0 {
		p.i++
		p.brk = p.i < len(p.parts)
	}
	return n, nil
}

var verifStart = time.Date(2023, 5, 10, 12, 0, 0, 0, time.UTC)

func runHandle(in []byte, w io.Writer, cfg *jsonconfig.Config, c vCase) chan string {
	done := make(chan string, 1)
	var r io.Reader = bytes.NewReader(in)
	if c.Chunk > 0 || c.EOFWith {
		ch := c.Chunk
		if ch <= 0 {
			ch = 1 << 20
		}
		r = &chunkedReader{append([]byte{}, in...), rand.New(rand.NewSource(c.Seed)), ch, c.EOFWith}
	}
	if strings.HasPrefix(c.Cls, "transient") {
		// a live source that drops out for a moment twice (the second time later than one tolerance after the first);
		// the configuration has a non-zero end-of-file tolerance (set by the caller)
		c1, c2 := len(in)/3, 2*len(in)/3
		pr := &pausingReader{parts: [][]byte{append([]byte{}, in[:c1]...), append([]byte{}, in[c1:c2]...), append([]byte{}, in[c2:]...)},
			gaps: []time.Duration{0, 110 * time.Millisecond, 0}}
		if strings.HasSuffix(c.Cls, "timeout") {
			pr.soft = errors.New("read /dev/ttyACM0: i/o timeout")
		}
		pr.twice = strings.Contains(c.Cls, "twice")
		r = pr
	}
	go func() {
		defer func() {
			if p := recover(); p != nil {
				done <- "panic"
				return
			}
			done <- ""
		}()
		HandleMessages(verifStart, r, w, cfg)
	}()
	return done
}

// expectedOutput computes, independently of the application's HandleMessages, what the complete output must be:
// the real stream handler run sequentially gives the messages; rtcmfilter writes the raw bytes of the typed ones,
// displayrtcm3 writes its three heading lines and the display of every message.
func expectedOutput(app string, in []byte) []byte {
	chIn := make(chan byte, len(in)+1)
	for _, b := range in {
		chIn <- b
	}
	close(chIn)
	chOut := make(chan rtcm.Message, 16)
	h := rtcm.New(verifStart, slog.LevelDebug)
	go h.HandleMessages(chIn, chOut)
	var out []byte
	if app == "displayrtcm3" {
		out = append(out, "RTCM data\n"...)
		out = append(out, "\nNote: times are in UTC.  RINEX format uses GPS time, which is currently (Jan 2021)\n"...)
		out = append(out, "18 seconds ahead of UTC\n\n"...)
	}
	for m := range chOut {
		mm := m
		if app == "displayrtcm3" {
			out = append(out, (mm.String() + "\n")...)
		} else if mm.MessageType >= 0 {
			out = append(out, mm.RawData...)
		}
	}
	return out
}

var frameLenRe = regexp.MustCompile(`Frame length (\d+) bytes:`)

// hangs counts the cases in which the entry point did not return in time: after three of them the remaining cases are
// not run (each would wait its full time-out to say the same thing, and the whole run would outlast every limit)
var hangs int

func TestVerifApps(t *testing.T) {
	casesPath, outPath := os.Getenv("VERIF_CASES"), os.Getenv("VERIF_OUT")
	if casesPath == "" || outPath == "" {
		t.Skip("not driven by the verification harness")
	}
	f, err := os.Open(casesPath)
	if err != nil {
		t.Fatal(err)
	}
	defer f.Close()
	out, err := os.Create(outPath)
	if err != nil {
		t.Fatal(err)
	}
	defer out.Close()
	enc := json.NewEncoder(out)
	sc := bufio.NewScanner(f)
	sc.Buffer(make([]byte, 1<<24), 1<<24)
	for sc.Scan() {
		var c vCase
		if json.Unmarshal(sc.Bytes(), &c) != nil {
			continue
		}
		in := toBytes(c.In)
		if hangs >= 3 {
			break
		}
		switch c.Mode {
		case "c11":
			if c.Display || c.Record {
				// the files rtcmfilter writes besides stdout (display log, record) are output too: they must be complete
				// at the moment HandleMessages returns
				if os.Getenv("VERIF_APP") != "rtcmfilter" {
					continue
				}
				dir := t.TempDir()
				fcfg := &jsonconfig.Config{DisplayMessages: c.Display, RecordMessages: c.Record, MessageLogDirectory: dir}
				fw := &recWriter{held: make(chan struct{}), release: make(chan struct{})}
				if c.Cls == "c11-devfull" {
					// the display log's filestore is full (today's file name is a link to /dev/full: every write fails with
					// ENOSPC) and standard output is slow: the healthy outputs are still complete at the return
					day := time.Now().Format("2006-01-02")
					os.Symlink("/dev/full", filepath.Join(dir, "rtcm."+day+".txt"))
					fw.delay = 15 * time.Millisecond
				}
				if c.Cls == "c11-stall" {
					// the consumer of standard output stalls for several seconds on its first write while more messages
					// follow: it still gets every message (nothing gives up on a slow consumer)
					fw.stall = time.Duration(c.Hold) * time.Millisecond
				}
				readAll := func() string {
					var sb strings.Builder
					ents, _ := os.ReadDir(dir)
					for _, e := range ents {
						if e.Type()&os.ModeSymlink != 0 {
							continue // never read the /dev/full link: it is an endless source
						}
						b, _ := os.ReadFile(filepath.Join(dir, e.Name()))
						sb.WriteString(e.Name()[:strings.Index(e.Name()+".", ".")])
						sb.WriteString(":")
						sb.Write(b)
						sb.WriteString("|")
					}
					return sb.String()
				}
				d := runHandle(in, fw, fcfg, c)
				ret := ""
				select {
				case ret = <-d:
				case <-time.After(60 * time.Second):
					ret = "timeout"
				}
				atReturn := readAll()
				outAtReturn, nw := fw.snapshot()
				time.Sleep(400 * time.Millisecond)
				final := readAll()
				if c.Cls == "c11-files-repeat" && ret == "" && atReturn == final {
					// the window between the return and a late write to a file is a fraction of a millisecond: the same
					// small case is repeated (fresh directory each time) until a run shows the file incomplete at the return
					for rep := 0; rep < 300 && atReturn == final; rep++ {
						dir = t.TempDir()
						fcfg = &jsonconfig.Config{DisplayMessages: c.Display, RecordMessages: c.Record, MessageLogDirectory: dir}
						fw = &recWriter{held: make(chan struct{}), release: make(chan struct{})}
						select {
						case ret = <-runHandle(in, fw, fcfg, c):
						case <-time.After(20 * time.Second):
							ret = "timeout"
						}
						atReturn = readAll()
						outAtReturn, nw = fw.snapshot()
						if ret != "" {
							break
						}
						time.Sleep(3 * time.Millisecond)
						final = readAll()
					}
				}
				want := expectedOutput("rtcmfilter", in)
				recOK := true
				if c.Record {
					recOK = false
					ents, _ := os.ReadDir(dir)
					for _, e := range ents {
						if strings.HasSuffix(e.Name(), ".rtcm") && e.Type()&os.ModeSymlink == 0 {
							b, _ := os.ReadFile(filepath.Join(dir, e.Name()))
							recOK = bytes.Equal(b, want)
						}
					}
					if len(want) == 0 {
						recOK = true
					}
				}
				enc.Encode(vEvent{"ev": "c11", "id": c.ID, "nin": len(in), "ref_bytes": len(want), "ref_writes": nw, "hold": 0, "ref_return": ret,
					"expected_bytes": len(want), "files": true, "display": c.Display, "record": c.Record,
					"returned_while_write_blocked": false, "returned": ret == "", "bytes_at_return": len(atReturn),
					"complete_at_return": atReturn == final && bytes.Equal(outAtReturn, want), "final_equal_ref": true,
					"ref_matches_expected": recOK && bytes.Equal(outAtReturn, want)})
				continue
			}
			cfg := &jsonconfig.Config{}
			// reference: ungated, wait until the output is quiet
			ref := &recWriter{held: make(chan struct{}), release: make(chan struct{})}
			d := runHandle(in, ref, cfg, c)
			refRet := ""
			select {
			case refRet = <-d:
			case <-time.After(30 * time.Second):
				refRet = "timeout"
				hangs++
			}
			settle(ref, 300*time.Millisecond, 5*time.Second)
			refBytes, refWrites := ref.snapshot()
			hold := c.Hold
			if hold <= 0 {
				hold = refWrites + hold
			}
			want := expectedOutput(os.Getenv("VERIF_APP"), in)
			ev := vEvent{"ev": "c11", "id": c.ID, "nin": len(in), "ref_bytes": len(refBytes), "ref_writes": refWrites, "hold": hold, "ref_return": refRet,
				"expected_bytes": len(want), "ref_matches_expected": bytes.Equal(refBytes, want)}
			if hold < 1 || hold > refWrites {
				ev["skipped"] = true
				if !bytes.Equal(refBytes, want) {
					// nothing to block, but the output is incomplete even long after the return
					ev["skipped"] = false
					ev["returned_while_write_blocked"] = false
					ev["returned"] = refRet == ""
					ev["complete_at_return"] = false
					ev["final_equal_ref"] = true
				}
				enc.Encode(ev)
				continue
			}
			g := &recWriter{hold: hold, held: make(chan struct{}), release: make(chan struct{})}
			d = runHandle(in, g, cfg, c)
			select {
			case <-g.held:
			case <-time.After(10 * time.Second):
				ev["skipped"] = true
				ev["note"] = "held write never arrived"
				close(g.release)
				enc.Encode(ev)
				continue
			}
			// the writer is now blocked inside Write number `hold`; does the entry point return anyway?
			early := false
			select {
			case <-d:
				early = true
			case <-time.After(300 * time.Millisecond):
			}
			atRet, _ := g.snapshot()
			ev["returned_while_write_blocked"] = early
			ev["bytes_when_checked"] = len(atRet)
			close(g.release)
			returned := early
			if !early {
				select {
				case <-d:
					returned = true
				case <-time.After(20 * time.Second):
					hangs++
				}
				atRet, _ = g.snapshot()
			}
			ev["returned"] = returned
			ev["bytes_at_return"] = len(atRet)
			ev["complete_at_return"] = bytes.Equal(atRet, refBytes)
			settle(g, 300*time.Millisecond, 5*time.Second)
			fin, _ := g.snapshot()
			ev["final_equal_ref"] = bytes.Equal(fin, refBytes)
			enc.Encode(ev)
		case "c11x":
			// what the complete output for this input is (computed from the stream handler, not from the application), for
			// comparison with what the BUILT program has written by the time it exits
			want := expectedOutput(os.Getenv("VERIF_APP"), in)
			sum := sha1.Sum(want)
			enc.Encode(vEvent{"ev": "c11x", "id": c.ID, "want_len": len(want), "want_sha": hex.EncodeToString(sum[:])})
		case "c10":
			dir := t.TempDir()
			cfg := &jsonconfig.Config{DisplayMessages: c.Display, RecordMessages: c.Record, MessageLogDirectory: dir}
			if strings.HasPrefix(c.Cls, "transient") {
				cfg.TimeoutOnEOFMilliSeconds, cfg.WaitTimeOnEOFMilliseconds = 70, 5
			}
			w := &recWriter{held: make(chan struct{}), release: make(chan struct{})}
			if strings.HasPrefix(c.Cls, "stall") {
				// whoever reads standard output stalls for several seconds on the first write: every valid frame still comes out
				w.stall = 5500 * time.Millisecond
				if c.Cls == "stall-long" {
					w.stall = 12 * time.Second
				}
			}
			day1 := time.Now().Format("2006-01-02")
			d := runHandle(in, w, cfg, c)
			ret := ""
			select {
			case ret = <-d:
			case <-time.After(60 * time.Second):
				ret = "timeout"
				hangs++
			}
			settle(w, 300*time.Millisecond, 5*time.Second)
			time.Sleep(50 * time.Millisecond)
			day2 := time.Now().Format("2006-01-02")
			got, _ := w.snapshot()
			ev := vEvent{"ev": "c10", "id": c.ID, "in": c.In, "out": toInts(got), "ret": ret, "display": c.Display, "record": c.Record,
				"midnight": day1 != day2, "rec": []int{}, "has_rec": false, "entries": []int{}, "has_disp": false}
			if c.Record {
				for _, day := range []string{day1, day2} {
					if b, err := os.ReadFile(filepath.Join(dir, "rtcmfilter."+day+".rtcm")); err == nil {
						ev["rec"] = toInts(b)
						ev["has_rec"] = true
						break
					}
				}
			}
			if c.Display {
				for _, day := range []string{day1, day2} {
					if b, err := os.ReadFile(filepath.Join(dir, "rtcm."+day+".txt")); err == nil {
						lens := []int{}
						for _, m := range frameLenRe.FindAllSubmatch(b, -1) {
							n, _ := strconv.Atoi(string(m[1]))
							lens = append(lens, n)
						}
						ev["entries"] = lens
						ev["has_disp"] = true
						break
					}
				}
			}
			enc.Encode(ev)
		}
	}
}
