// Package gate turns the verifhook call sites (build tag verif) and the
// harness's own consumers into scheduler gates: a goroutine arriving at a hook
// blocks until the replay controller grants its role the next step.  In free
// mode the handler only injects seeded yields / tiny sleeps.
package gate

import (
	"fmt"
	"math/rand"
	"runtime"
	"strings"
	"sync"
	"time"
)

type Arrival struct {
	Role  string
	Point string
	Arg   int
	rel   chan struct{}
}

type Controller struct {
	mu      sync.Mutex
	open    bool
	pending map[string]*Arrival
	arrive  chan *Arrival
	openCh  chan struct{}
}

func New() *Controller {
	return &Controller{pending: map[string]*Arrival{}, arrive: make(chan *Arrival, 64), openCh: make(chan struct{})}
}

// RoleOf maps a hook point to the process of the Pipeline model.
func RoleOf(point string, arg int) string {
	switch {
	case strings.HasPrefix(point, "reader."):
		return "R"
	case strings.HasPrefix(point, "framer."):
		return "F"
	case strings.HasPrefix(point, "fanout."):
		return "M"
	case strings.HasPrefix(point, "cons."):
		return fmt.Sprintf("C%d", arg)
	case strings.HasPrefix(point, "writer."):
		return fmt.Sprintf("W%d", arg)
	}
	return point
}

// At is installed as verifhook.Handler (and called by harness consumers).
func (c *Controller) At(point string, kv ...int) {
	c.mu.Lock()
	open := c.open
	c.mu.Unlock()
	if open {
		return
	}
	arg := 0
	if len(kv) > 0 {
		arg = kv[0]
	}
	a := &Arrival{Role: RoleOf(point, arg), Point: point, Arg: arg, rel: make(chan struct{})}
	select {
	case c.arrive <- a:
	case <-c.openCh:
		return
	}
	select {
	case <-a.rel:
	case <-c.openCh:
	}
}

// Open releases every waiting goroutine and disables the gates.
func (c *Controller) Open() {
	c.mu.Lock()
	c.open = true
	c.mu.Unlock()
	close(c.openCh)
	c.pending = map[string]*Arrival{}
}

// Await waits until role is at a hook and returns the arrival (nil on timeout).
func (c *Controller) Await(role string, timeout time.Duration) *Arrival {
	if a, ok := c.pending[role]; ok {
		return a
	}
	deadline := time.After(timeout)
	for {
		select {
		case a := <-c.arrive:
			c.pending[a.Role] = a
			if a.Role == role {
				return a
			}
		case <-deadline:
			return nil
		}
	}
}

// Grant lets the role pass its hook.
func (c *Controller) Grant(role string) {
	if a, ok := c.pending[role]; ok {
		delete(c.pending, role)
		close(a.rel)
	}
}

// Free returns a hook handler for free-running mode: seeded yields and tiny sleeps.
func Free(seed int64, intensity int) func(point string, kv ...int) {
	var mu sync.Mutex
	rng := rand.New(rand.NewSource(seed))
	return func(point string, kv ...int) {
		mu.Lock()
		r := rng.Intn(100)
		mu.Unlock()
		switch {
		case r < intensity:
			runtime.Gosched()
		case r < intensity+intensity/4:
			time.Sleep(time.Duration(r%7+1) * 10 * time.Microsecond)
		}
	}
}
