// Package gen builds byte streams for the framer-family drivers.  It is a
// driver only: which streams are "well-structured", which frames are "valid"
// and what must be delivered is decided by the TLA+ specification on the raw
// bytes, never by this package.
package gen

import (
	"fmt"
	"math/rand"

	"verifharness/internal/tr"
)

var MSMTypes = []int{1074, 1077, 1084, 1087, 1094, 1097, 1104, 1107, 1114, 1117, 1124, 1127, 1134, 1137}
var OtherTypes = []int{1005, 1006, 1019, 1020, 1033, 1230, 4095, 0, 1, 63, 1073, 1075, 1138, 2, 4094, 2047, 2048}

// TypeClass returns a message type from the i-th class (cycles through all classes).
func TypeClass(rng *rand.Rand, i int) int {
	n := len(MSMTypes) + len(OtherTypes) + 1
	i = ((i % n) + n) % n
	if i < len(MSMTypes) {
		return MSMTypes[i]
	}
	i -= len(MSMTypes)
	if i < len(OtherTypes) {
		return OtherTypes[i]
	}
	return rng.Intn(4096)
}

// Payload builds a payload of n bytes starting with the 12-bit type.  For MSM
// types with room for it, a legal timestamp is written so that the message is
// delivered without a time error; the rest is random.  style: 0 random,
// 1 zeros, 2 many 0xD3 bytes, 3 ones.
func Payload(rng *rand.Rand, typ, n, style int) []byte {
	p := make([]byte, n)
	switch style {
	case 0:
		rng.Read(p)
	case 2:
		for i := range p {
			if rng.Intn(3) == 0 {
				p[i] = 0xd3
			} else {
				p[i] = byte(rng.Intn(256))
			}
		}
	case 3:
		for i := range p {
			p[i] = 0xff
		}
	}
	p[0] = byte(typ >> 4)
	if n >= 2 {
		p[1] = byte(typ<<4) | (p[1] & 0x0f)
	}
	if IsMSM(typ) && n >= 7 && style != 3 {
		// legal timestamp: day 0..5 / ms < 86400000 works for every constellation
		ts := uint64(rng.Intn(6))<<27 | uint64(rng.Intn(86400000))
		if style == 1 {
			ts = 0
		}
		setBits(p, 24, 30, ts)
	}
	return p
}

func setBits(p []byte, pos, n int, v uint64) {
	for i := 0; i < n; i++ {
		bit := (v >> uint(n-1-i)) & 1
		idx := pos + i
		if idx/8 >= len(p) {
			return
		}
		mask := byte(1) << uint(7-idx%8)
		if bit == 1 {
			p[idx/8] |= mask
		} else {
			p[idx/8] &^= mask
		}
	}
}

func IsMSM(t int) bool {
	for _, m := range MSMTypes {
		if m == t {
			return true
		}
	}
	return false
}

// Frame returns a valid frame of the given type and payload length.
func Frame(rng *rand.Rand, typ, plen, style int) []byte {
	return tr.Frame(Payload(rng, typ, plen, style))
}

// FrameWithCRCByte searches the filler byte(s) of a frame so that one of the CRC
// bytes equals want (e.g. 0xD3).  Returns nil if no filler works.
func FrameWithCRCByte(rng *rand.Rand, typ, plen int, want byte) []byte {
	if plen < 4 {
		return nil
	}
	for try := 0; try < 200000; try++ {
		f := Frame(rng, typ, plen, 0)
		n := len(f)
		if f[n-1] == want || f[n-2] == want || f[n-3] == want {
			return f
		}
	}
	return nil
}

// FrameWithCRCBytesEqual searches for a frame whose CRC bytes at the given positions (0 = first, most
// significant) all equal val - e.g. a CRC with a zero high byte, or with two leading zero bytes.
// Returns nil if none is found.
func FrameWithCRCBytesEqual(rng *rand.Rand, typ, plen int, pos []int, val byte) []byte {
	if plen < 4 {
		return nil
	}
	for try := 0; try < 1<<21; try++ {
		f := Frame(rng, typ, plen, 0)
		n := len(f)
		ok := true
		for _, p := range pos {
			if f[n-3+p] != val {
				ok = false
				break
			}
		}
		if ok {
			return f
		}
	}
	return nil
}

// Junk returns n bytes containing no 0xD3.  style 0 random binary, 1 NMEA-like, 2 UBX-like.
func Junk(rng *rand.Rand, n, style int) []byte {
	b := make([]byte, 0, n)
	switch style {
	case 1:
		s := fmt.Sprintf("$GPGGA,%06d.00,5127.%05d,N,00012.%05d,W,1,08,0.9,%d.4,M,46.9,M,,*%02X\r\n",
			rng.Intn(240000), rng.Intn(100000), rng.Intn(100000), rng.Intn(900), rng.Intn(256))
		for len(b) < n {
			b = append(b, s...)
		}
		b = b[:n]
	case 2:
		b = append(b, 0xb5, 0x62)
		for len(b) < n {
			b = append(b, byte(rng.Intn(256)))
		}
		b = b[:n]
	default:
		for len(b) < n {
			b = append(b, byte(rng.Intn(256)))
		}
	}
	for i := range b {
		if b[i] == 0xd3 {
			b[i] = 0xd2
		}
	}
	return b
}

// Garbage returns n arbitrary bytes with 0xD3 sprinkled in (not well-structured).
func Garbage(rng *rand.Rand, n int) []byte {
	b := make([]byte, n)
	rng.Read(b)
	for i := range b {
		switch rng.Intn(12) {
		case 0:
			b[i] = 0xd3
		case 1:
			b[i] = 0
		}
	}
	return b
}

func Cat(parts ...[]byte) []byte {
	var r []byte
	for _, p := range parts {
		r = append(r, p...)
	}
	return r
}

// BoundaryLens are the payload lengths the quick tier always covers.
// (211, 467, 723, 979: the low byte of the length is the start byte 0xD3)
var BoundaryLens = []int{1, 2, 3, 4, 5, 6, 7, 8, 9, 10, 19, 20, 21, 22, 25, 26, 211, 255, 256, 257, 467, 511, 512, 513, 723, 979, 1021, 1022, 1023}

// Lens returns the payload lengths for a tier: all of 1..1023 or the boundaries plus a seeded sample.
func Lens(rng *rand.Rand, thorough bool, extra int) []int {
	if thorough {
		r := make([]int, 1023)
		for i := range r {
			r[i] = i + 1
		}
		return r
	}
	r := append([]int{}, BoundaryLens...)
	for i := 0; i < extra; i++ {
		r = append(r, 1+rng.Intn(1023))
	}
	return r
}

// Corrupt applies one corruption to the payload/CRC part of frame f (leader untouched)
// and returns the corrupted copy with a description.  kind selects the family.
func Corrupt(rng *rand.Rand, f []byte, kind int) ([]byte, string) {
	c := append([]byte{}, f...)
	lo, hi := 3, len(f) // payload and CRC
	switch kind % 8 {
	case 0: // single bit
		i := lo*8 + rng.Intn((hi-lo)*8)
		c[i/8] ^= 1 << uint(7-i%8)
		return c, fmt.Sprintf("bit %d", i)
	case 1: // burst of 2..24 bits
		n := 2 + rng.Intn(23)
		s := lo*8 + rng.Intn((hi-lo)*8)
		for i := s; i < s+n && i < hi*8; i++ {
			c[i/8] ^= 1 << uint(7-i%8)
		}
		return c, fmt.Sprintf("burst %d+%d", s, n)
	case 2: // overwrite one byte with 0xD3
		i := lo + rng.Intn(hi-lo)
		if c[i] == 0xd3 {
			c[i] = 0xd4
		} else {
			c[i] = 0xd3
		}
		return c, fmt.Sprintf("d3 at %d", i)
	case 3: // first payload byte becomes 0xD3
		if c[3] == 0xd3 {
			c[3] = 0
		} else {
			c[3] = 0xd3
		}
		return c, "d3 first payload byte"
	case 4: // one CRC byte altered (each byte alone)
		i := hi - 1 - rng.Intn(3)
		c[i] ^= byte(1 + rng.Intn(255))
		return c, fmt.Sprintf("crc byte %d", i-(hi-3))
	case 5: // CRC byte becomes 0xD3
		i := hi - 1 - rng.Intn(3)
		if c[i] == 0xd3 {
			c[i] = 0x3d
		} else {
			c[i] = 0xd3
		}
		return c, fmt.Sprintf("crc d3 %d", i-(hi-3))
	case 6: // zero overwrite of a run
		s := lo + rng.Intn(hi-lo)
		n := 1 + rng.Intn(8)
		for i := s; i < s+n && i < hi; i++ {
			c[i] = 0
		}
		return c, fmt.Sprintf("zeros %d+%d", s, n)
	default: // ones overwrite of a run
		s := lo + rng.Intn(hi-lo)
		n := 1 + rng.Intn(8)
		for i := s; i < s+n && i < hi; i++ {
			c[i] = 0xff
		}
		return c, fmt.Sprintf("ones %d+%d", s, n)
	}
}

// FrameWithStartByteAt returns a valid frame in which byte number pos (2..) of the frame is 0xD3:
// pos 2 is the low byte of the length (payload lengths 211, 467, 723, 979), pos 3 and 4 the type bytes, later
// positions payload bytes.  hi selects the high length bits for pos 2.
func FrameWithStartByteAt(rng *rand.Rand, pos, hi int) []byte {
	if pos == 2 {
		plen := (hi&3)<<8 | 0xd3
		return tr.Frame(Payload(rng, TypeClass(rng, rng.Intn(30)), plen, 0))
	}
	plen := pos - 3 + 1 + rng.Intn(24)
	p := make([]byte, plen)
	rng.Read(p)
	p[pos-3] = 0xd3
	return tr.Frame(p)
}
