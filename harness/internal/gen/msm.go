package gen

import (
	"math/rand"

	"verifharness/internal/tr"
)

// MSMSpec describes one MSM4/MSM7 message for the harness encoder (a driver
// only: the TLA+ module MSM.tla decides what the bytes mean).
type MSMSpec struct {
	Type                                             int
	Station, TS, MM, IODS, Sess, Clk, ExtClk, Smooth, SmInt uint64
	SatMask                                          uint64
	SigMask                                          uint32
	CellMask                                         []int   // nSat*nSig bits
	Sat                                              [][]int64 // per satellite: MSM4 {whole, frac}; MSM7 {whole, ext, frac, rate}
	Cell                                             [][]int64 // per cell: MSM4 {fine, phase, lock, half, cnr}; MSM7 {fine, phase, lock, half, cnr, rate}
	Pad                                              int     // trailing zero bytes
}

func IsMSM7(t int) bool { return t%10 == 7 }

var msm4SatW = []int{8, 10}
var msm7SatW = []int{8, 4, 10, 14}
var msm4SigW = []int{15, 22, 4, 1, 6}
var msm7SigW = []int{20, 24, 10, 1, 10, 15}
var msm4SigS = []bool{true, true, false, false, false}
var msm7SigS = []bool{true, true, false, false, false, true}

func SatWidths(t int) []int {
	if IsMSM7(t) {
		return msm7SatW
	}
	return msm4SatW
}
func SigWidths(t int) ([]int, []bool) {
	if IsMSM7(t) {
		return msm7SigW, msm7SigS
	}
	return msm4SigW, msm4SigS
}

// Encode returns the payload (not framed).
func (s *MSMSpec) Encode() []byte {
	var w tr.BitWriter
	w.Put(uint64(s.Type), 12)
	w.Put(s.Station, 12)
	w.Put(s.TS, 30)
	w.Put(s.MM, 1)
	w.Put(s.IODS, 3)
	w.Put(s.Sess, 7)
	w.Put(s.Clk, 2)
	w.Put(s.ExtClk, 2)
	w.Put(s.Smooth, 1)
	w.Put(s.SmInt, 3)
	w.Put(s.SatMask, 64)
	w.Put(uint64(s.SigMask), 32)
	for _, b := range s.CellMask {
		w.Put(uint64(b), 1)
	}
	sw := SatWidths(s.Type)
	for fi, width := range sw {
		for k := range s.Sat {
			w.PutS(s.Sat[k][fi], width)
		}
	}
	gw, _ := SigWidths(s.Type)
	for fi, width := range gw {
		for k := range s.Cell {
			w.PutS(s.Cell[k][fi], width)
		}
	}
	for w.NBit%8 != 0 {
		w.Put(0, 1)
	}
	return append(w.Buf, make([]byte, s.Pad)...)
}

func popcount64(x uint64) int {
	n := 0
	for ; x != 0; x &= x - 1 {
		n++
	}
	return n
}

func pickMask(rng *rand.Rand, width, n int) uint64 {
	var m uint64
	for _, p := range rng.Perm(width)[:n] {
		m |= 1 << uint(width-1-p)
	}
	return m
}

// fieldValue picks a value for a field of the given width: kind 0 random, 1 min ("invalid"
// marker for signed fields), 2 max, 3 zero, 4 minus one / all ones.
func fieldValue(rng *rand.Rand, width int, signed bool, kind int) int64 {
	switch kind {
	case 1:
		if signed {
			return -(1 << uint(width-1))
		}
		return 0
	case 2:
		if signed {
			return 1<<uint(width-1) - 1
		}
		return 1<<uint(width) - 1
	case 3:
		return 0
	case 4:
		if signed {
			return -1
		}
		return 1<<uint(width) - 1
	}
	if signed {
		return rng.Int63n(1<<uint(width)) - 1<<uint(width-1)
	}
	return rng.Int63n(1 << uint(width))
}

// RandomMSM builds a message spec.  shape: 0 empty masks, 1 one satellite x many signals,
// 2 many satellites x 1 signal (up to 64x1), 3 8x8 full, 4 sparse cell mask, 5 random <= 64 cells,
// 6 satellites and signals but no cell, 7 small typical (GPS-like 2 signals).
// valueKind: -1 mixed per field, else all fields of that kind (see fieldValue).
func RandomMSM(rng *rand.Rand, typ, shape, valueKind int, mm uint64, pad int) *MSMSpec {
	s := &MSMSpec{Type: typ, Station: uint64(rng.Intn(4096)), MM: mm, IODS: uint64(rng.Intn(8)), Sess: uint64(rng.Intn(128)),
		Clk: uint64(rng.Intn(4)), ExtClk: uint64(rng.Intn(4)), Smooth: uint64(rng.Intn(2)), SmInt: uint64(rng.Intn(8)), Pad: pad}
	s.TS = uint64(rng.Intn(604800000))
	if typ == 1084 || typ == 1087 {
		s.TS = uint64(rng.Intn(7))<<27 | uint64(rng.Intn(86400000))
	}
	nsat, nsig := 0, 0
	density := 1.0
	switch shape {
	case 0:
	case 1:
		nsat, nsig = 1, 1+rng.Intn(32)
	case 2:
		nsat, nsig = 1+rng.Intn(64), 1
		if rng.Intn(3) == 0 {
			nsat = 64
		}
	case 3:
		nsat, nsig = 8, 8
	case 4:
		nsat = 1 + rng.Intn(16)
		nsig = 1 + rng.Intn(minInt(32, 64/nsat))
		density = 0.25
	case 5:
		nsat = 1 + rng.Intn(64)
		nsig = 1 + rng.Intn(minInt(32, 64/nsat))
		density = rng.Float64()
	case 6:
		nsat, nsig = 1+rng.Intn(8), 1+rng.Intn(8)
		density = 0
	default:
		nsat, nsig = 4+rng.Intn(8), 2
		density = 0.8
	}
	s.SatMask = pickMask(rng, 64, nsat)
	s.SigMask = uint32(pickMask(rng, 32, nsig))
	ncell := 0
	for i := 0; i < nsat*nsig; i++ {
		b := 0
		if rng.Float64() < density {
			b = 1
		}
		s.CellMask = append(s.CellMask, b)
		ncell += b
	}
	// MSM7 with the maximum mask and many cells must still fit in 1023 bytes
	kind := func() int {
		if valueKind >= 0 {
			return valueKind
		}
		return []int{0, 0, 0, 1, 2, 3, 4}[rng.Intn(7)]
	}
	sw := SatWidths(typ)
	for k := 0; k < nsat; k++ {
		row := make([]int64, len(sw))
		for fi, width := range sw {
			signed := IsMSM7(typ) && fi == 3
			row[fi] = fieldValue(rng, width, signed, kind())
		}
		s.Sat = append(s.Sat, row)
	}
	gw, gs := SigWidths(typ)
	for k := 0; k < ncell; k++ {
		row := make([]int64, len(gw))
		for fi, width := range gw {
			row[fi] = fieldValue(rng, width, gs[fi], kind())
		}
		s.Cell = append(s.Cell, row)
	}
	return s
}

func minInt(a, b int) int {
	if a < b {
		return a
	}
	return b
}

// TwinMSMs returns frames (payloads) that differ from each other in exactly one structural aspect while
// sharing everything else: the same cell-mask bits with transposed shape (a x b vs b x a), the same payload
// under another constellation's type, the same masks with other cell data.  A decoder that caches anything
// keyed on part of a message confuses such neighbours.
func TwinMSMs(rng *rand.Rand, typ int) [][]byte {
	shapes := [][2]int{{2, 3}, {6, 2}, {4, 3}, {1, 4}, {2, 8}, {5, 3}, {16, 4}, {2, 32}}
	sh := shapes[rng.Intn(len(shapes))]
	a, b := sh[0], sh[1]
	bits := make([]int, a*b)
	n := 0
	for i := range bits {
		bits[i] = rng.Intn(2)
		n += bits[i]
	}
	if n == 0 {
		bits[0], n = 1, 1
	}
	mk := func(t, nsat, nsig int, cells [][]int64) []byte {
		s := RandomMSM(rng, t, 0, -1, 0, 0)
		s.SatMask = pickMask(rng, 64, nsat)
		s.SigMask = uint32(pickMask(rng, 32, nsig))
		s.CellMask = bits
		sw := SatWidths(t)
		for k := 0; k < nsat; k++ {
			row := make([]int64, len(sw))
			for fi, width := range sw {
				row[fi] = fieldValue(rng, width, IsMSM7(t) && fi == 3, 0)
			}
			s.Sat = append(s.Sat, row)
		}
		s.Cell = cells
		return s.Encode()
	}
	cellsFor := func(t int) [][]int64 {
		gw, gs := SigWidths(t)
		var cells [][]int64
		for k := 0; k < n; k++ {
			row := make([]int64, len(gw))
			for fi, width := range gw {
				row[fi] = fieldValue(rng, width, gs[fi], 0)
			}
			cells = append(cells, row)
		}
		return cells
	}
	c1 := cellsFor(typ)
	other := MSMTypes[rng.Intn(len(MSMTypes))]
	for IsMSM7(other) != IsMSM7(typ) {
		other = MSMTypes[rng.Intn(len(MSMTypes))]
	}
	return [][]byte{
		mk(typ, a, b, c1),            // base
		mk(typ, b, a, c1),            // transposed shape, same cell-mask bits
		mk(typ, a, b, cellsFor(typ)), // same masks, other data
		mk(other, a, b, c1),          // another constellation of the same family
	}
}
