// Package tr holds the small shared pieces of the conformance drivers:
// ND-JSON trace output, seeds, and the harness's own frame builder (a driver
// only - expected values always come from the TLA+ operators).
package tr

import (
	"bufio"
	"encoding/json"
	"fmt"
	"math/rand"
	"os"
	"strconv"
)

type Writer struct {
	f *os.File
	w *bufio.Writer
	N int
}

func NewWriter(path string) *Writer {
	f, err := os.Create(path)
	if err != nil {
		panic(err)
	}
	return &Writer{f: f, w: bufio.NewWriterSize(f, 1<<20)}
}

func (w *Writer) Emit(ev interface{}) {
	b, err := json.Marshal(ev)
	if err != nil {
		panic(err)
	}
	w.w.Write(b)
	w.w.WriteByte('\n')
	w.N++
}

func (w *Writer) Close() {
	w.w.Flush()
	w.f.Close()
}

func Seed() int64 {
	s, err := strconv.ParseInt(os.Getenv("VERIF_SEED"), 10, 64)
	if err != nil {
		return 1
	}
	return s
}

func Thorough() bool { return os.Getenv("VERIF_TIER") == "thorough" }

func Rand(salt int64) *rand.Rand { return rand.New(rand.NewSource(Seed()*1000003 + salt)) }

// Ints converts bytes to a JSON-friendly []int ([]byte would be base64).
func Ints(b []byte) []int {
	r := make([]int, len(b))
	for i, x := range b {
		r[i] = int(x)
	}
	return r
}

// Limbs splits a 64-bit value into 20/22/22-bit limbs (TLC integers are 32-bit).
func Limbs(v uint64) [3]int {
	return [3]int{int(v >> 44), int((v >> 22) & 0x3fffff), int(v & 0x3fffff)}
}

// Recover runs f and returns the panic text, if any.
func Recover(f func()) (p string) {
	defer func() {
		if r := recover(); r != nil {
			p = fmt.Sprint(r)
			if p == "" {
				p = "panic"
			}
		}
	}()
	f()
	return ""
}

// CRC24Q is the harness's own bit-serial CRC (driver only).
func CRC24Q(b []byte) uint32 {
	var crc uint32
	for _, x := range b {
		crc ^= uint32(x) << 16
		for i := 0; i < 8; i++ {
			crc <<= 1
			if crc&0x1000000 != 0 {
				crc ^= 0x1864cfb
			}
		}
	}
	return crc & 0xffffff
}

// Frame wraps a payload (1..1023 bytes) in leader and CRC.
func Frame(payload []byte) []byte {
	n := len(payload)
	f := make([]byte, 0, n+6)
	f = append(f, 0xd3, byte(n>>8)&3, byte(n))
	f = append(f, payload...)
	c := CRC24Q(f)
	return append(f, byte(c>>16), byte(c>>8), byte(c))
}

// FixCRC recomputes the CRC over all but the last three bytes of buf, in place.
func FixCRC(buf []byte) {
	n := len(buf)
	if n < 3 {
		return
	}
	c := CRC24Q(buf[:n-3])
	buf[n-3], buf[n-2], buf[n-1] = byte(c>>16), byte(c>>8), byte(c)
}

// BitWriter builds payloads field by field (MSB first).
type BitWriter struct {
	Buf  []byte
	NBit int
}

func (w *BitWriter) Put(v uint64, n int) {
	for i := n - 1; i >= 0; i-- {
		if w.NBit%8 == 0 {
			w.Buf = append(w.Buf, 0)
		}
		if (v>>uint(i))&1 == 1 {
			w.Buf[w.NBit/8] |= 1 << uint(7-w.NBit%8)
		}
		w.NBit++
	}
}

func (w *BitWriter) PutS(v int64, n int) { w.Put(uint64(v)&((1<<uint(n))-1), n) }
