#!/usr/bin/env python3
"""Regenerates /verif/MANIFEST.json from the table below (one source of truth)."""
import json
import os

HERE = os.path.dirname(os.path.dirname(os.path.abspath(__file__)))
BASE = json.load(open("/root/.vp/BASELINE.json")) if os.path.exists("/root/.vp/BASELINE.json") else {"cmd": ""}

# id -> (category, technique, text, note, design_ref)
CHECKS = {
    "C14": ("model_checking",
            "TLA+ format operator (Bits.tla) evaluated by TLC over traces of the real GetBitsAsUint64/GetBitsAsInt64",
            "Trace validation: every recorded call of the two extraction functions (all 8 alignments x all widths 1..64 x "
            "pattern families x both context fills, buffers exactly as long as the field; plus seeded random buffers) is checked by "
            "TLC against the 5-line definition FieldBits/ZeroExtend64/SignExtend64 of Bits.tla, compared as 64-bit images so widths "
            "up to 64 are exact.  One pure function: TLC is the evaluator of an executable definition, the strength is the enumeration.",
            "Trusted: TLC's evaluation of Bits.tla; JSON transport of 64-bit results as 20/22/22-bit limbs; Go's recover() reports over-reads as panics.",
            "DESIGN.md 6/C14"),
}

NOT_YET = {}


def main():
    props = [json.loads(l) for l in open(os.path.join(HERE, "properties.jsonl"))]
    checks = []
    na = []
    for p in props:
        pid = p["id"]
        if pid in CHECKS:
            cat, tech, text, note, ref = CHECKS[pid]
            checks.append(dict(
                property_id=pid,
                quick_cmd="./check %s quick" % pid,
                thorough_cmd="./check %s thorough" % pid,
                evidence_file="evidence/%s.json" % pid,
                replay_cmd_template="./check %s --replay {path}" % pid,
                engine="tlc+go-harness",
                level_claimed=dict(category=cat, text=text, design_ref=ref),
                level_note=note,
                technique=tech))
        else:
            na.append(dict(property_id=pid, reason=NOT_YET.get(pid, "check not built yet in this session (work in progress; see DESIGN.md 13 build order)")))
    m = dict(
        version=1,
        setup_cmd="./setup.sh",
        hooks=dict(guard="verif", enable="go build/test -tags verif (harness module /verif/harness with replace => /repo; overlay tests for package main)",
                   baseline_off_cmd=BASE.get("cmd", ""), source_commits=HOOK_COMMITS, add_only=True),
        engines=[dict(name="tlc+go-harness", path="check", serves_properties=sorted(CHECKS),
                      kind_free_text="explicit TLA+ specifications (spec/*.tla) checked with TLC: exhaustive bounded model checking of the "
                                     "implementation-shaped models against the property specs, trace validation of ND-JSON traces recorded from "
                                     "the real Go code, and replay of TLC-generated behaviours into the real code")],
        checks=checks,
        notes="See DESIGN.md.  exit 0 held / exit 1 VIOLATION (real-code behaviour only) / exit 2 inconclusive.",
        not_applicable=na)
    with open(os.path.join(HERE, "MANIFEST.json"), "w") as f:
        json.dump(m, f, indent=1)
    print("MANIFEST.json: %d checks, %d not claimed" % (len(checks), len(na)))


HOOK_COMMITS = []

if __name__ == "__main__":
    main()
