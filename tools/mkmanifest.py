#!/usr/bin/env python3
"""Regenerates /verif/MANIFEST.json from the table below (one source of truth)."""
import json
import os

HERE = os.path.dirname(os.path.dirname(os.path.abspath(__file__)))
BASE = json.load(open("/root/.vp/BASELINE.json")) if os.path.exists("/root/.vp/BASELINE.json") else {"cmd": ""}

# id -> (category, technique, text, note, design_ref)
CHECKS = {
    "C14": ("model_checking",
            "TLA+ format operator (Bits.tla) evaluated by TLC over traces of the real GetBitsAsUint64/GetBitsAsInt64",
            "Trace validation: every recorded call of the two extraction functions (all 8 alignments x all widths 1..64 x "
            "pattern families x both context fills, buffers exactly as long as the field; plus seeded random buffers) is checked by "
            "TLC against the 5-line definition FieldBits/ZeroExtend64/SignExtend64 of Bits.tla, compared as 64-bit images so widths "
            "up to 64 are exact.  One pure function: TLC is the evaluator of an executable definition, the strength is the enumeration.  "
            "The same driver is re-run as a GOARCH=386 build and as a static binary in an empty root directory; a trace that differs from the ordinary one is validated as well.",
            "Trusted: TLC's evaluation of Bits.tla; JSON transport of 64-bit results as 20/22/22-bit limbs; Go's recover() reports over-reads as panics.",
            "DESIGN.md 6/C14"),
}

FR_NOTE = ("Trusted: TLC and the CommunityModules operators; the ND-JSON transport; the harness observes HandleMessages only through its two "
           "channels.  Bounded model checking holds for the toy alphabet up to the stated stream length only; the real CRC-24Q algebra is "
           "exercised by trace validation only; conformance is sampling over the generator classes listed in the evidence 'rule'.")
CHECKS.update({
    "C01": ("model_checking", "TLC model checking of FramerCore.tla (all toy streams) + TLC trace validation of the real HandleMessages/GetMessage against Frame!IsValidFrame (CRC-24Q in TLA+)",
            "Design level: the implementation-shaped framer model (one transition per GetNextByte call site) satisfies 'typed => valid frame and type = first 12 bits' "
            "for every stream over a 4-symbol alphabet up to 8 (quick) / 11 (thorough) bytes.  Code level: every message the real code delivers on generated streams and "
            "every result of single-frame decoding is checked by TLC against the frame definition with the real CRC-24Q written in TLA+; the same pass reports drift of the code from the model.",
            FR_NOTE, "DESIGN.md 6/C01"),
    "C02": ("model_checking", "TLC model checking of FramerCore.tla (lossless invariant, all toy streams and EOF positions) + TLC trace validation of real channel runs against the Lossless L0 state machine (+ PushBack.tla model-checked and the real rtcm/pushback type validated against it, as a conformance note)",
            "Design level: Concat(out) is a prefix of the input in every reachable state, no empty message, everything delivered at close (inductive strengthening C02ind), for all toy streams. "
            "Code level: traces of the real HandleMessages over real channels (capacities {0,1,8,n+1} x {0,1,4}, paced producer/consumer) are validated event by event: each message must be the next input bytes, "
            "close exactly once after everything was delivered, no panic, no hang.",
            FR_NOTE, "DESIGN.md 6/C02"),
    "C03": ("model_checking", "TLC model checking (operational FramerCore = declarative Parse on all well-structured toy streams) + TLC trace validation against the declarative segmentation Classify/SegOK",
            "The declarative segmentation (frame by leader length and CRC, maximal 0xD3-free runs, truncated tail) is written independently of the operational framer; TLC shows them equal on all "
            "well-structured toy streams, and validates the real code's output on generated well-structured real streams message by message (all payload lengths 1..1023 in the thorough tier).",
            FR_NOTE, "DESIGN.md 6/C03"),
    "C12": ("model_checking", "TLC model checking (Parse with corrupt candidates) + TLC trace validation of corrupted-victim streams against Classify/SegOK(allowCorrupt)",
            "As C03 with checksum-failing candidates allowed: the victim must come out as one non-RTCM message with exactly its bytes and all other segments as in the declarative parse. "
            "Model: every toy stream (which includes every corruption of every toy frame).  Code: victim corruption families incl. every single bit of short frames and 0xD3 injection.",
            FR_NOTE, "DESIGN.md 6/C12"),
    "C20": ("model_checking", "TLA+ classification table (MsgTypes.tla) checked by TLC against a complete enumeration trace of the real classifiers",
            "Complete enumeration: one recorded event per type in -2..4095 carrying the answers of MSM4/MSM7/MSM, GetConstellation, GetTitleAndComment, GetMessage's timestamp extraction, the four decoders' "
            "acceptance of a synthetic well-formed frame of that type, what Analyse attempted and whether String() displays it; TLC checks each against the single table and the table's own cross-consistency.  Also: the 48 ordered pairs of timed MSM types through one handler, each timed type across its own week roll-over, every type once more as a CRC-failing frame (not typed, no timestamp, no times) and every type displayed by eight goroutines at once in a fresh process.",
            "Trusted: TLC; the synthetic frame is well-formed for every family (so acceptance = err == nil); constellation names compared after normalisation.", "DESIGN.md 6/C20"),
})

CHECKS.update({
    "C07": ("exploration", "TLC-enumerated guard-threshold case space (C07_Cases.tla, with in-bounds invariant of the guards) replayed on the real code under panic/hang monitors",
            "The verdict is a runtime observation (recovered panic, 10 s watchdog) on the real code; the TLA+ model supplies (i) the design-level invariant that whenever the decoders' "
            "length guards accept, every bit read lies inside the frame, for every payload length 1..1023 and every mask shape, and (ii) the exhaustive list of payload lengths at which a guard flips, "
            "per (family, nSat, nSig), which the driver concretises into CRC-valid frames with zero/one/random bits, illegal timestamps and all 14 MSM types and pushes through GetMessage, Analyse, String "
            "(both log levels), Copy, the four decoders and HandleMessages.  The same driver is re-run as a GOARCH=386 build and as a static binary in an empty root directory; a trace that differs from the ordinary one is validated as well.",
            "TLA+ proves nothing about Go memory safety; the level is model-guided exploration.  Trusted: recover() and the watchdog as monitors.", "DESIGN.md 6/C07"),
})

TT_NOTE = ("Trusted: TLC; the toy calendar of the exhaustive runs (4 ticks a day, week starts 1/2/3 ticks before Sunday, 3.4 weeks horizon) stands for the real one; "
           "reported times are read back from the message's SentAt/StartOfWeek strings; conformance is sampling over generated and TLC-simulated histories.")
CHECKS.update({
    "C06": ("model_checking", "TLC model checking of TimeTrack.tla against the true-time spec + Apalache inductive invariant over unbounded integer time (TimeTrack_Ind.tla, bound to TimeTrack by TLC) + TLC-simulated and counterexample histories replayed on the real handler + TLC trace validation (Time_Trace.tla)",
            "Design level: the handler's rollover algorithm (TimeTrack.tla, one Convert per message) reports the true time and start of week for every start time, every interleaving of 2-3 constellations, "
            "illegal timestamps anywhere, over 3 toy weeks; the as-found deviations are named switches whose counterexamples TLC produces.  Code level: those counterexamples, random TLC simulations and "
            "rollover-focused generated histories are encoded into CRC-valid MSM frames and pushed through GetMessage and HandleMessages; TLC validates every reported time against the truth with the real "
            "constants (18 s / 4 s / 3 h offsets) and decides the property's preconditions itself.",
            TT_NOTE, "DESIGN.md 6/C06"),
    "C17": ("model_checking", "as C06 with the weaker precondition (first observation anywhere in the start time's constellation week); also the built displayrtcm3 program with every date of the week under several TZ settings, validated by the same trace specification",
            "Same specifications as C06 with FirstNotBeforeT = FALSE: model checked for all (T, first observation) pairs of a week and continuations; the real handler is driven with first observations "
            "before, at and after T (down to +-1 ms and the week's last ms) for all four constellations.",
            TT_NOTE, "DESIGN.md 6/C17"),
})

FMT_NOTE = ("Trusted: TLC as evaluator of the format modules; the harness encoder is a driver only (expected values are read by TLA+ from the raw bytes; the share of generated "
            "cases the spec regards as well-formed is reported).  This is the 'transcribe the function' use of TLA+: its strength is the enumeration around it, which is sampled for this property.")
CHECKS.update({
    "C04": ("model_checking", "TLA+ executable format definition (MSM.tla: masks, field-major satellite/signal arrays, popcount cell count) evaluated by TLC over traces of the real MSM4/MSM7 decoders",
            "Every decode of an encoder-generated frame (14 types x mask shapes incl. empty, 1xN, 64x1, 8x8, sparse x field extremes incl. invalid markers and all-zero cells x flag x 0..N zero padding bytes up to "
            "the 1023-byte limit), directly and through the handler's Analyse, is compared by TLC with MSM!DecodeMSM of the raw bytes: header fields, the three masks, satellite and signal lists, every "
            "satellite-cell and signal-cell field with sign, each cell's satellite and signal id and its grouping.  MSM!WellFormedMSM decides the precondition.  "
            "The same driver is re-run as a GOARCH=386 build and as a static binary in an empty root directory; a trace that differs from the ordinary one is validated as well.",
            FMT_NOTE, "DESIGN.md 6/C04"),
    "C05": ("model_checking", "TLA+ executable format definition (Base1005.tla incl. exact 4-decimal display arithmetic) evaluated by TLC over traces of the real 1005/1006 decoders and String()",
            "Every decode (decoder and handler path, both log levels) of generated 1005/1006 frames is checked by TLC: fields as 64-bit sign-extended images of the 38-bit values, every decimal number shown by "
            "String() against integer x 0.0001 to exactly four decimals (bit-serial quotient/remainder inside 32-bit integers), wrong type / too short => error.  "
            "The same driver is re-run as a GOARCH=386 build and as a static binary in an empty root directory; a trace that differs from the ordinary one is validated as well.",
            FMT_NOTE, "DESIGN.md 6/C05"),
})

CHECKS.update({
    "C08": ("model_checking", "TLA+ case analysis and exact scaled-integer arithmetic (Ranges.tla) checked by TLC on traces of real decodes; real-number step checked in exact rationals with constants exported from the spec",
            "TLC decides, per decoded signal cell of real MSM4/MSM7 decodes, the aggregate scaled integers (range unit 2^-29 ms, phase 2^-31 ms, rate 10^-4 m/s), the invalid-marker case analysis "
            "(invalid rough value => zero and 'invalid' in the display; invalid fine value => rough value alone) and thereby MSM4/MSM7 equivalence.  TLC has no reals: the four floating-point results "
            "and the wavelength are compared by the harness with exact rational arithmetic (8 ulp) using only the constants Ranges!Export prints (c, 2^-29, 2^-31, 10^-4, the frequency table).  The same driver is re-run as a GOARCH=386 build and as a static binary in an empty root directory; a trace that differs from the ordinary one is validated as well.",
            "Split stated above: the floating-point closeness is outside TLA+ (no reals, 32-bit integers).  Scope as in the property: non-negative values, wavelength defined; frequency table = the documented one.",
            "DESIGN.md 6/C08"),
    "C15": ("model_checking", "TLC trace validation against the 'stateless' L0 spec (text and decoded fields are a function of frame and log level, learnt at first sight) + Go race detector on the same runs",
            "The L1 content of this property is 'there is no such variable'; the L0 monitor (C15_Trace.tla) rejects any event whose text digest (minus the MSM time lines) or decoded-field digest differs from the first "
            "sighting of the same (frame, level), across: fresh handler, every other predecessor order, repetition, delayed display after later decodes, 8 handlers in parallel goroutines with concurrently displayed "
            "by-value copies, and the real appcore fan-out with a scribbling first consumer; raw bytes must be unchanged by display.  Data races are observed by the race detector.",
            "Race detection is the Go runtime's, not TLA+'s.  Sampling over a seeded pool of frames.", "DESIGN.md 6/C15"),
})

PIPE_NOTE = ("Trusted: TLC; the verif hooks are placed immediately before the channel operations they name; Go channel semantics as modelled (rendezvous / bounded buffer). "
             "Bounded: small inputs and consumer sets for exhaustive interleavings; larger inputs only free-running.")
CHECKS.update({
    "C09": ("model_checking", "TLC model checking of Pipeline.tla (all interleavings, safety + liveness) + TLC-simulated schedules forced on the real goroutines through gated verif hooks + TLC trace validation of gated and free runs",
            "Pipeline.tla models reader, framer and fan-out as processes over Go channels with one gate per verifhook call site; TLC checks for every interleaving that each consumer gets a prefix of the sequential message "
            "sequence, all of it when the call has returned, helpers finished, channels closed once, and termination under fairness.  The framer's emission schedule is computed by FramerCore on the real bytes.  "
            "Simulated behaviours (sequences of hook passes) are replayed deterministically on the real goroutines: each hook blocks until the controller grants it, hook names are compared with the model at every step "
            "(drift), and every consumer's messages are validated by TLC (C09_Trace) against the real framer run sequentially.  Free runs add GOMAXPROCS 1..16, seeded yields at hooks, chunked readers, the race detector.",
            PIPE_NOTE, "DESIGN.md 6/C09"),
    "C10": ("model_checking", "TLC trace validation of complete rtcmfilter runs (in-process entry point and built binary over pipes) against the output computed by FramerCore with the real CRC in TLA+",
            "For every run TLC recomputes from the input bytes the messages the framing rules delimit and requires stdout = record file = concatenation of the typed ones, and one readable-log entry per delivered message "
            "with the right length; all four switch combinations, seeded chunkings, process exit awaited before files are read.",
            "Trusted: FramerCore as the statement of 'the framing rules' (checked against the code by C01-C03/C12 and against the properties by Framer_MC).", "DESIGN.md 6/C10"),
    "C11": ("model_checking", "TLC model checking of Apps.tla (writer latency as separate start/end steps; as-found switch gives the counterexample) + that schedule forced on the real entry points with a blocking io.Writer + TLC trace validation",
            "Apps.tla: with WaitForWriters the property holds for all interleavings and latencies; without it TLC yields main.closeChan, main.return before writer.writeEnd.  The replay blocks a chosen Write call of the output writer "
            "of the real displayrtcm3.HandleMessages / rtcmfilter.HandleMessages (injected by go test -overlay): returning while that Write is provably still blocked is the violation, reproduced deterministically; "
            "a correct implementation simply waits.  Output at return is compared with an unblocked reference run.",
            PIPE_NOTE, "DESIGN.md 6/C11"),
})

CHECKS.update({
    "C13": ("model_checking", "TLC model checking of FileReader.tla (all scripts of read results up to 7/8, abstract clock) against ReaderFaults + scripted io.Reader under the real bufio.Reader/Handle + TLC trace validation",
            "FileReader.tla mirrors Handle's read loop branch by branch (ReadData, ReadEOFFirst, ReadEOFRetry, ReadEOFExpired, ReadEOFZeroTolerance, ReadOtherError) over an abstract clock; TLC checks it against the L0 stop rule "
            "for every script over {data, EOF, timeout, other error} in three timing regimes.  Code level: scripts (systematic placements of single/double/triple interruptions at byte offsets of multi-frame streams, "
            "two interruptions, zero tolerance, seven kinds of other errors, TLC-simulated scripts) run under the real bufio.Reader and Handle; TLC recomputes the stop point and, with FramerCore and the real CRC, the messages that must be delivered.",
            "Trusted: wall-clock margins (tolerance 60 ms, waits 0-1 ms) with a stall guard that discards, never flags, runs in which the machine itself stalled.", "DESIGN.md 6/C13"),
    "C16": ("model_checking", "TLC model checking of Logger.tla (as-found switch gives the counterexample) + that schedule forced on the built binary through the verif pause hook + TLC trace validation of complete process runs",
            "Logger.tla: copy loop, recorder goroutine and process exit; with WaitForRecorder the record file equals stdin at exit for all interleavings, without it TLC yields copy.send(last), rec.recv, copy.eof, main.exit before rec.write.  "
            "The built rtcmlogger (tag verif) is run over OS pipes with VERIF_PAUSE_rec.write holding the recorder before its write while main reaches end of input - the counterexample schedule, deterministic - and free-running "
            "with seeded chunkings, sizes around the 8096-byte block; stdout and the day's file are compared with stdin after the process has exited.",
            "Trusted: SHA-1 + length for large inputs (bytes for small ones); the pause hook only delays.", "DESIGN.md 6/C16"),
    "C18": ("model_checking", "TLC model checking of CircularQueue.tla (RWMutex protocol, eviction and insertion as separate steps, 3 processes), Apalache inductive invariant for any capacity (CircularQueue_Ind, bound to CircularQueue by TLC) + exhaustive Add/Get sequences and hook-linearised concurrent histories validated by TLC",
            "Design: the lock protocol refines the atomic last-N queue for capacities 1-3, three processes, up to 6/7 operations (vacuity guard: without the lock TLC finds the torn snapshot).  Code: every Add/Get sequence of length 9 (11-12) "
            "for every capacity 1..8, long runs far beyond capacity, and concurrent adders/readers under the race detector; the addition order is logged by the verif hook inside the critical section, and TLC checks each snapshot is the "
            "contiguous run LastMin(N, adds[1..k]) for a k consistent with the real-time order of calls and returns.",
            "Trusted: the hook placement (after the insertion, before Unlock); atomic stamp counter for real-time order.", "DESIGN.md 6/C18"),
    "C19": ("model_checking", "TLC model checking of Proxy.tla (relay, tee into the parser, queue, status snapshot; crashing-parser switch as vacuity guard) + TLC model checking of ProxyMulti.tla (several connections sharing one parser) + TLC trace validation of TCP and TLS loopback sessions through the built binary",
            "Proxy.tla shows the relay never depends on the status reader and delivers everything under fairness, and that a crashing parser kills the relay (why the C07 defect was also a C19 defect).  Code: sessions through the built proxy "
            "with harness-owned upstream server and client, both directions at once, chunkings from 1 byte to whole-buffer bursts, valid / malformed / random / HTML-spelling traffic; TLC requires byte-for-byte relay, the process alive, "
            "the report's messages (read back from the hex dumps) to be a run of what FramerCore delimits in the client stream, and no '<' or '>' in any traffic-derived slot of the report.",
            "Trusted: loopback TCP as FIFO byte streams; the report template's literal text for cutting the slots.  TLS mode and multiple simultaneous clients are not exercised.", "DESIGN.md 6/C19"),
})

NOT_YET = {}


def main():
    props = [json.loads(l) for l in open(os.path.join(HERE, "properties.jsonl"))]
    checks = []
    na = []
    for p in props:
        pid = p["id"]
        if pid in CHECKS:
            cat, tech, text, note, ref = CHECKS[pid]
            checks.append(dict(
                property_id=pid,
                quick_cmd="./check %s quick" % pid,
                thorough_cmd="./check %s thorough" % pid,
                evidence_file="evidence/%s.json" % pid,
                replay_cmd_template="./check %s --replay {path}" % pid,
                engine="tlc+go-harness",
                level_claimed=dict(category=cat, text=text, design_ref=ref),
                level_note=note,
                technique=tech))
        else:
            na.append(dict(property_id=pid, reason=NOT_YET.get(pid, "check not built yet in this session (work in progress; see DESIGN.md 13 build order)")))
    m = dict(
        version=1,
        setup_cmd="./setup.sh",
        hooks=dict(guard="verif", enable="go build/test -tags verif (harness module /verif/harness with replace => /repo; overlay tests for package main)",
                   baseline_off_cmd=BASE.get("cmd", ""), source_commits=HOOK_COMMITS, add_only=True),
        engines=[dict(name="tlc+go-harness", path="check", serves_properties=sorted(CHECKS),
                      kind_free_text="explicit TLA+ specifications (spec/*.tla) checked with TLC: exhaustive bounded model checking of the "
                                     "implementation-shaped models against the property specs, trace validation of ND-JSON traces recorded from "
                                     "the real Go code, and replay of TLC-generated behaviours into the real code")],
        checks=checks,
        notes="See DESIGN.md.  exit 0 held / exit 1 VIOLATION (real-code behaviour only) / exit 2 inconclusive.",
        not_applicable=na)
    with open(os.path.join(HERE, "MANIFEST.json"), "w") as f:
        json.dump(m, f, indent=1)
    print("MANIFEST.json: %d checks, %d not claimed" % (len(checks), len(na)))


HOOK_COMMITS = ['cb04636']

if __name__ == "__main__":
    main()
