#!/bin/sh
# tools/seedtest.sh <repo-worktree> <Cxx> [<Cyy> ...]: run quick checks against another checkout of the repository
# (e.g. a sub-agent's worktree with a seeded change) from a scratch copy of /verif, leaving /repo and /verif alone.
set -e
WT=$1; shift
C=/tmp/vcopy_$(basename $WT)
rm -rf $C; mkdir -p $C
rsync -a --exclude .git --exclude .work --exclude replays --exclude evidence /verif/ $C/
sed -i "s#=> /repo#=> $WT#" $C/harness/go.mod
cp $WT/go.sum $C/harness/go.sum
mkdir -p $C/evidence $C/replays
for c in "$@"; do
  (cd $C && VERIF_REPO=$WT ./check $c ${TIER:-quick} 2>&1 | grep -E "^(VIOLATION|KNOWN|INCONCLUSIVE|NOTE|C[0-9]+ (quick|thorough))" | head -${LINES_MAX:-6})
done
