#!/usr/bin/env python3
"""Runs the repository's test suite (build tag off) and compares with /root/.vp/BASELINE.json stable_pass."""
import json, subprocess, sys
base = json.load(open("/root/.vp/BASELINE.json"))
want = set(base["stable_pass"])
r = subprocess.run(["go", "test", "-json", "-vet=off", "-count=1", "-timeout", "25m", "./..."], cwd=(sys.argv[1] if len(sys.argv) > 1 else "/repo"), capture_output=True, text=True)
got = set()
failed = set()
for line in r.stdout.splitlines():
    try:
        e = json.loads(line)
    except Exception:
        continue
    if e.get("Test") and "/" not in e["Test"]:
        k = "%s::%s" % (e["Package"], e["Test"])
        if e.get("Action") == "pass":
            got.add(k)
        elif e.get("Action") == "fail":
            failed.add(k)
missing = sorted(want - got)
print("baseline: %d expected, %d passing now, %d missing, other failures: %s" % (len(want), len(want & got), len(missing), sorted(failed - want)))
for m in missing:
    print("  MISSING", m)
sys.exit(1 if missing else 0)
