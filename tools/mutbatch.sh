#!/bin/sh
# tools/mutbatch.sh <Cxx> <dir with m*.diff>: run the property's quick check against every minimal mutant of a batch
# (each in its own scratch worktree, removed afterwards).  One line per mutant: DETECTED / MISSED / INCONCLUSIVE / NOAPPLY.
ID=$1; D=$(realpath $2)
for p in $D/m*.diff; do
  k=$(basename $p .diff)
  WT=/tmp/wt/mb_${ID}_$k
  git -C /repo worktree add -q --detach $WT HEAD || { echo "$ID $k: WORKTREE-FAIL"; continue; }
  if git -C $WT apply $p 2>/dev/null; then
    if (cd $WT && go build ./... >/dev/null 2>&1); then
      R=$(LINES_MAX=40 /verif/tools/seedtest.sh $WT $ID 2>&1)
      if echo "$R" | grep -q "^VIOLATION"; then echo "$ID $k: DETECTED"
      elif echo "$R" | grep -q "^INCONCLUSIVE"; then echo "$ID $k: INCONCLUSIVE $(echo "$R" | grep INCONCLUSIVE | head -1 | cut -c1-120)"
      elif echo "$R" | grep -q "held"; then echo "$ID $k: MISSED"
      else echo "$ID $k: ??? $(echo "$R" | tail -1 | cut -c1-120)"; fi
    else echo "$ID $k: NOBUILD"; fi
  else echo "$ID $k: NOAPPLY"; fi
  git -C /repo worktree remove --force $WT
  rm -rf /tmp/vcopy_mb_${ID}_$k
done
