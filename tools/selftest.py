#!/usr/bin/env python3
"""Runs every mutant of selftest/mutants/MAP.json against the checks that must detect it (quick tier) and writes
selftest/RESULTS.md.  Modifies /repo's working tree temporarily (one mutant at a time) - do not run checks concurrently."""
import json, os, subprocess, sys, time
HERE = os.path.dirname(os.path.dirname(os.path.abspath(__file__)))
m = json.load(open(os.path.join(HERE, "selftest/mutants/MAP.json")))
only = sys.argv[1:]
rows = []
for diff, checks in sorted(m.items()):
    if diff.startswith("_") or (only and not any(o in diff for o in only)):
        continue
    t = time.time()
    r = subprocess.run([sys.executable, os.path.join(HERE, "tools/mutant.py"), os.path.join(HERE, "selftest/mutants", diff)] + checks + ["--tests"],
                       capture_output=True, text=True)
    tests = next((l for l in r.stdout.splitlines() if l.startswith("tests:")), "tests: ?")
    for c in checks:
        line = next((l for l in r.stdout.splitlines() if (" %s: " % c) in l), "")
        status = "DETECTED" if "DETECTED" in line else ("MISSED" if "MISSED" in line else "INCONCLUSIVE")
        rows.append((diff, c, status, tests.replace("tests: baseline: ", "")[:60]))
        print(diff, c, status, "%.0fs" % (time.time() - t), flush=True)
with open(os.path.join(HERE, "selftest/RESULTS.md"), "w") as f:
    f.write("| mutant | check | result | repository suite with the mutant |\n|---|---|---|---|\n")
    for r in rows:
        f.write("| %s | %s | %s | %s |\n" % r)
print("detected %d / %d" % (sum(1 for r in rows if r[2] == "DETECTED"), len(rows)))
