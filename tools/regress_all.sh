#!/bin/sh
# tools/regress_all.sh [parallelism]: every stored seeded change against its property's quick check (or the checks named by
# "regress_checks" in its meta.json when the change lies in another property's code) and every benign refactoring against the
# checks listed in its meta.json.  One line per run; each in its own scratch worktree and scratch copy of /verif.
cd /verif
python3 - > /tmp/regress.jobs <<'PY'
import json,glob,os
for d in sorted(glob.glob('/verif/seeded/C*')):
    m=json.load(open(d+'/meta.json')) if os.path.exists(d+'/meta.json') else {}
    print("seeded/%s %s"%(os.path.basename(d), m.get('regress_checks', os.path.basename(d).split('-')[0])))
for d in sorted(glob.glob('/verif/benign/B*')):
    m=json.load(open(d+'/meta.json'))
    print("benign/%s %s"%(os.path.basename(d), m['checks_run']))
PY
cat /tmp/regress.jobs | xargs -P ${1:-5} -L 1 sh -c 'tools/seedregress.sh "$@"' _
