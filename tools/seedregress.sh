#!/bin/sh
# tools/seedregress.sh <seeded-dir> <Cxx> [...]: re-create a scratch worktree with a stored seeded change and run the checks on it.
# Prints one line per check.  The worktree and the scratch copy of /verif are removed afterwards.
D=$(realpath $1); shift
N=$(basename $D)
WT=/tmp/wt/r_$N
git -C /repo worktree add -q --detach $WT HEAD || exit 9
if git -C $WT apply $D/patch.diff 2>/dev/null; then
  for c in "$@"; do
    R=$(/verif/tools/seedtest.sh $WT $c 2>&1 | tail -1 | cut -c1-110)
    echo "$N $c: $R"
  done
else
  echo "$N: patch does not apply"
fi
git -C /repo worktree remove --force $WT
rm -rf /tmp/vcopy_r_$N
