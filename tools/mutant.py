#!/usr/bin/env python3
"""tools/mutant.py <patch.diff> <Cxx> [<Cyy> ...] [--tests] : apply a mutant to /repo, run the named checks (quick), revert.
Prints one line per check: DETECTED / MISSED / INCONCLUSIVE.  Never leaves /repo modified."""
import os, subprocess, sys
patch = os.path.abspath(sys.argv[1])
checks = [a for a in sys.argv[2:] if not a.startswith("--")]
tier = "thorough" if "--thorough" in sys.argv else "quick"
assert subprocess.run(["git", "-C", "/repo", "status", "--porcelain"], capture_output=True, text=True).stdout.strip() == "", "/repo not clean"
subprocess.run(["git", "-C", "/repo", "apply", patch], check=True)
try:
    b = subprocess.run(["go", "build", "./..."], cwd="/repo", capture_output=True, text=True)
    if b.returncode != 0:
        print("MUTANT DOES NOT COMPILE", b.stderr[-500:]); sys.exit(3)
    if "--tests" in sys.argv:
        r = subprocess.run(["python3", "/verif/tools/baseline.py"], capture_output=True, text=True)
        print("tests:", r.stdout.strip().splitlines()[0])
    for c in checks:
        r = subprocess.run(["/verif/check", c, tier], capture_output=True, text=True)
        v = [l for l in r.stdout.splitlines() if l.startswith("VIOLATION")]
        status = {0: "MISSED", 1: "DETECTED", 2: "INCONCLUSIVE"}.get(r.returncode, "rc=%d" % r.returncode)
        print("%s %s: %s (%d violations) %s" % (os.path.basename(patch), c, status, len(v), r.stdout.strip().splitlines()[-1][:160] if r.stdout.strip() else r.stderr[-300:]))
finally:
    subprocess.run(["git", "-C", "/repo", "checkout", "--", "."], check=True)
    subprocess.run(["git", "-C", "/repo", "clean", "-fdq"], check=False)
