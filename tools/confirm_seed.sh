#!/bin/sh
# tools/confirm_seed.sh <id> <worktree> <demo-file> <package-dir-relative> : confirm a seeded change independently:
# builds, repository suite still at baseline, demonstration fails with the change and passes without it.
ID=$1; WT=$2; DEMO=$3; PKG=$4
cd $WT || exit 9
echo "== $ID: build"; go build ./... && echo build-ok
echo "== $ID: repository suite with the change"; python3 /verif/tools/baseline.py $WT | head -3
cp $DEMO $WT/$PKG/
echo "== $ID: demo WITH the change (must fail)"; go test -count=1 ./$PKG/ 2>&1 | grep -E "^(--- FAIL|FAIL|ok)" | grep -v TestString | head -5
git stash -q
echo "== $ID: demo WITHOUT the change (must pass)"; go test -count=1 ./$PKG/ 2>&1 | grep -E "^(--- FAIL|FAIL|ok)" | grep -v "TestString" | head -5
git stash pop -q
rm -f $WT/$PKG/$(basename $DEMO)
git status --short | head -3
