#!/bin/sh
# tools/confirm_seed.sh <id> <worktree> <demo-file> <package-dir-relative> <run-pattern>: confirm a seeded change independently:
# builds, repository suite still at baseline, demonstration fails with the change and passes without it.
# (no git stash: the stash list is shared between worktrees)
ID=$1; WT=$2; DEMO=$3; PKG=$4; PAT=${5:-.}
cd $WT || exit 9
P=/tmp/confirm_$ID.diff
git diff > $P
B=$(go build ./... 2>&1 && echo build-ok)
T=$(python3 /verif/tools/baseline.py $WT | head -1)
cp $DEMO $WT/$PKG/
W=$(go test -count=1 -run "$PAT" ./$PKG/ 2>&1 | grep -E "^(FAIL|ok)" | head -1)
git checkout -q -- .
WO=$(go test -count=1 -run "$PAT" ./$PKG/ 2>&1 | grep -E "^(FAIL|ok)" | head -1)
git apply $P
rm -f $WT/$PKG/$(basename $DEMO) $P
echo "$ID | $B | $T | with: $W | without: $WO | $(git status --short | tr '\n' ' ')"
