#!/bin/sh
# Offline setup: verify tools and pre-build the harness against /repo (populates the go build cache).
set -e
cd "$(dirname "$0")"
export GOFLAGS=-mod=mod GOPROXY=off GOSUMDB=off GOTOOLCHAIN=local
command -v java >/dev/null
test -f /opt/veriftools/tla/tla2tools.jar
command -v go >/dev/null
cp /repo/go.sum harness/go.sum 2>/dev/null || true
(cd harness && go build -tags verif -o /dev/null ./cmd/drive)
mkdir -p evidence replays .work
echo setup ok
