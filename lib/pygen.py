"""Python-side stream builders for the process-level drivers (drivers only: expected values come from TLA+)."""


def crc24q(b):
    crc = 0
    for x in b:
        crc ^= x << 16
        for _ in range(8):
            crc <<= 1
            if crc & 0x1000000:
                crc ^= 0x1864CFB
    return crc & 0xFFFFFF


def frame(payload):
    n = len(payload)
    f = bytes([0xD3, (n >> 8) & 3, n & 0xFF]) + bytes(payload)
    c = crc24q(f)
    return f + bytes([c >> 16, (c >> 8) & 0xFF, c & 0xFF])


def payload(rng, typ, n, fill=None):
    p = bytearray(rng.getrandbits(8) for _ in range(n)) if fill is None else bytearray((fill * (n // len(fill) + 1))[:n])
    p[0] = typ >> 4
    if n >= 2:
        p[1] = ((typ << 4) & 0xF0) | (p[1] & 0x0F)
    return bytes(p)


MSM = [1074, 1077, 1084, 1087, 1094, 1097, 1104, 1107, 1114, 1117, 1124, 1127, 1134, 1137]


def junk(rng, n):
    return bytes(x if x != 0xD3 else 0xD2 for x in (rng.getrandbits(8) for _ in range(n)))
