"""Shared machinery for the go-ntrip checks: build, drive, TLC, verdict, evidence.

Verdict rules (DESIGN.md section 5):
  exit 0  property held on everything explored (KNOWN-FINDING lines allowed)
  exit 1  VIOLATION property=<id> replay=<path>   -- only from real-code behaviour
  exit 2  inconclusive (tool failure, dead driver, timeout) -- never a violation
"""
import hashlib
import json
import os
import re
import shutil
import subprocess
import sys
import time

VERIF = os.path.dirname(os.path.dirname(os.path.abspath(__file__)))
REPO = os.environ.get("VERIF_REPO", "/repo")
SPEC = os.path.join(VERIF, "spec")
HARNESS = os.path.join(VERIF, "harness")
EVIDENCE = os.path.join(VERIF, "evidence")
REPLAYS = os.path.join(VERIF, "replays")
TLA_JAR = "/opt/veriftools/tla/tla2tools.jar:/opt/veriftools/tla/CommunityModules-deps.jar"

GOENV = dict(GOFLAGS="-mod=mod", GOPROXY="off", GOSUMDB="off", GOTOOLCHAIN="local")


class LibraryCrash(Exception):
    def __init__(self, crash, driver):
        Exception.__init__(self, crash["what"])
        self.crash, self.driver = crash, driver


class Inconclusive(Exception):
    pass


def log(*a):
    print(*a, flush=True)


class Ctx:
    """One invocation of one check."""

    def __init__(self, pid, tier, seed):
        self.pid = pid
        self.tier = tier
        self.seed = seed
        self.t0 = time.time()
        self.work = os.path.join(VERIF, ".work", "%s.%d" % (pid, os.getpid()))
        shutil.rmtree(self.work, ignore_errors=True)
        os.makedirs(self.work)
        # everything a check spawns (go, TLC, SANY, Apalache) keeps its temporary files inside the work directory, which is removed
        # at the end: nothing is left behind in /tmp
        self.tmp = os.path.join(self.work, "tmp")
        os.makedirs(self.tmp)
        os.environ["TMPDIR"] = self.tmp
        os.environ["JVM_ARGS"] = (os.environ.get("JVM_ARGS", "") + " -Djava.io.tmpdir=" + self.tmp).strip()
        os.makedirs(EVIDENCE, exist_ok=True)
        os.makedirs(REPLAYS, exist_ok=True)
        self.states = 0
        self.transitions = 0
        self.traces = 0
        self.mc_runs = []
        self.trace_runs = []
        self.violations = []      # list of dict(record)
        self.known_hits = []
        self.notes = []
        self.samples = []
        self.extra = {}
        self.evaluations = 0
        self.distinct = set()
        self.tlc_n = 0
        self.kf = load_known_findings(pid)

    # ------------------------------------------------------------------ paths
    def path(self, *p):
        return os.path.join(self.work, *p)

    def thorough(self):
        return self.tier == "thorough"

    # ------------------------------------------------------------------ go
    def goenv(self):
        e = dict(os.environ)
        e.update(GOENV)
        e["VERIF_SEED"] = str(self.seed)
        e["VERIF_TIER"] = self.tier
        # keep the go build cache out of /tmp-dependent state: default cache is fine
        return e

    def build_harness(self, race=False, tags="verif"):
        out = self.path("drive" + ("_race" if race else ""))
        cmd = ["go", "build", "-tags", tags, "-o", out]
        if race:
            cmd.append("-race")
        cmd.append("./cmd/drive")
        r = subprocess.run(cmd, cwd=HARNESS, env=self.goenv(), capture_output=True, text=True)
        if r.returncode != 0:
            raise Inconclusive("harness build failed (does /repo compile?):\n" + r.stdout + r.stderr)
        return out

    def trace_32bit(self, args, trace, timeout=900):
        """The same driver run in a 32-bit build (GOARCH=386: `int` and `uint` are 32 bits wide there, which is what the
        repository's code uses for most fields).  Returns None when the 32-bit trace is byte for byte the trace already
        validated (or when this machine cannot build / run 386 binaries: a note, this pass is an extra), otherwise the path
        of the differing trace, which the check validates against the same specification."""
        out = self.path("drive_386")
        env = self.goenv()
        env["GOARCH"] = "386"
        env["CGO_ENABLED"] = "0"
        r = subprocess.run(["go", "build", "-tags", "verif", "-o", out, "./cmd/drive"], cwd=HARNESS, env=env, capture_output=True, text=True)
        if r.returncode != 0:
            self.notes.append("32-bit pass skipped: the harness does not build for GOARCH=386: " + (r.stdout + r.stderr)[-300:])
            return None
        t32 = trace + ".386"
        try:
            self.drive(out, list(args) + [t32], timeout=timeout)
        except OSError as e:
            self.notes.append("32-bit pass skipped: this machine does not run 386 binaries (%s)" % e)
            return None
        same = open(t32, "rb").read() == open(trace, "rb").read()
        self.extra["trace_of_32bit_build"] = "identical to the 64-bit trace" if same else "differs from the 64-bit trace: validated separately"
        return None if same else t32

    def trace_bare(self, args, trace, timeout=900):
        """The same driver run as a static binary in an empty root directory with an empty environment (no time zone
        database, no /etc, no HOME: a scratch container).  What the library sets up at start-up from its surroundings must not
        change what it computes.  Returns None when the trace is byte for byte the one already validated (or when this process
        may not chroot: a note), otherwise the path of the differing trace."""
        root = self.path("bare_root")
        os.makedirs(root, exist_ok=True)
        env = self.goenv()
        env["CGO_ENABLED"] = "0"
        r = subprocess.run(["go", "build", "-tags", "verif", "-o", os.path.join(root, "drive"), "./cmd/drive"], cwd=HARNESS, env=env, capture_output=True, text=True)
        if r.returncode != 0:
            self.notes.append("bare-environment pass skipped: static build failed: " + (r.stdout + r.stderr)[-300:])
            return None
        chroot = shutil.which("chroot") or ("/usr/sbin/chroot" if os.path.exists("/usr/sbin/chroot") else None)
        if os.geteuid() != 0 or not chroot:
            self.notes.append("bare-environment pass skipped: not permitted to chroot")
            return None
        inner = []
        for a in args:       # input files of the driver are copied into the new root
            if os.path.isabs(a) and os.path.isfile(a):
                shutil.copy(a, os.path.join(root, os.path.basename(a)))
                a = "/" + os.path.basename(a)
            inner.append(a)
        args = inner
        try:
            r = subprocess.run([chroot, root, "/drive"] + list(args) + ["/trace.ndjson"], cwd=root, capture_output=True, text=True, timeout=timeout,
                               env={"VERIF_SEED": str(self.seed), "VERIF_TIER": self.tier})
        except subprocess.TimeoutExpired:
            raise Inconclusive("driver timed out in the bare environment: %s" % " ".join(args))
        if r.returncode == 125 or (r.returncode in (126, 127) and "chroot:" in r.stderr):
            self.notes.append("bare-environment pass skipped: chroot failed: " + r.stderr[-200:])
            return None
        if r.returncode != 0:
            crash = self.library_panic(r)
            if crash:
                raise LibraryCrash(crash, " ".join(args[:2]) + " (empty root directory)")
            raise Inconclusive("driver failed in the bare environment rc=%d: %s\n%s" % (r.returncode, " ".join(args), r.stderr[-3000:]))
        tb = os.path.join(root, "trace.ndjson")
        same = open(tb, "rb").read() == open(trace, "rb").read()
        self.extra["trace_in_empty_root_directory"] = "identical to the ordinary trace" if same else "differs from the ordinary trace: validated separately"
        return None if same else tb

    @staticmethod
    def library_panic(r):
        """If the driver process died of a panic / fatal error raised inside the repository's code in a goroutine the driver
        cannot guard (one the library starts itself), return a description; otherwise None."""
        txt = (r.stdout or "") + (r.stderr or "")
        m = re.search(r"^(panic: [^\n]*|fatal error: [^\n]*)", txt, re.M)
        if not m or m.group(1).startswith("panic: driver"):
            return None
        tail = txt[m.start():]
        # the innermost frame that is not the Go runtime's decides whose failure it is
        for fn in re.findall(r"^([A-Za-z0-9_./\-]+(?:\.\(\*?\w+\))?\.[\w.]+)\(", tail, re.M):
            if fn.startswith(("runtime.", "panic", "sync.", "internal/", "reflect.")):
                continue
            if fn.startswith("github.com/goblimey/go-ntrip/"):
                return dict(what=m.group(1)[:200], trace=tail[:3000])
            return None
        if m.group(1).startswith("fatal error: concurrent map") and "go-ntrip/" in tail:
            return dict(what=m.group(1)[:200], trace=tail[:3000])
        return None

    def drive(self, binary, args, timeout=600, env=None, ok_codes=(0,)):
        e = self.goenv()
        if env:
            e.update(env)
        t = time.time()
        try:
            r = subprocess.run([binary] + list(args), cwd=self.work, env=e,
                               capture_output=True, text=True, timeout=timeout)
        except subprocess.TimeoutExpired:
            raise Inconclusive("driver timed out: %s" % " ".join(args))
        if r.returncode not in ok_codes:
            crash = self.library_panic(r)
            if crash:
                raise LibraryCrash(crash, " ".join(args[:2]))
            raise Inconclusive("driver failed rc=%d: %s\n%s\n%s" % (
                r.returncode, " ".join(args), r.stdout[-4000:], r.stderr[-4000:]))
        self.notes.append("drive %s: %.1fs" % (" ".join(args[:3]), time.time() - t))
        return r


    # ------------------------------------------------------------------ overlay tests (package main apps)
    def overlay_test(self, app, cases_path, out_path, timeout=900, race=False):
        """Run the injected TestVerifApps inside /repo/apps/<app> (package main) without touching the repository."""
        ov = self.path("overlay_%s.json" % app)
        with open(ov, "w") as f:
            json.dump({"Replace": {os.path.join(REPO, "apps", app, "zz_verif_test.go"): os.path.join(HARNESS, "overlay", "apps_verif_test.go")}}, f)
        e = dict(os.environ)
        e.update(GOPROXY="off", GOSUMDB="off", GOTOOLCHAIN="local", VERIF_CASES=cases_path, VERIF_OUT=out_path, VERIF_APP=app)
        e.pop("GOFLAGS", None)      # in-repo builds use the default read-only module mode (go.mod untouched)
        cmd = ["go", "test", "-tags", "verif", "-vet=off", "-count=1", "-overlay", ov, "-run", "^TestVerifApps$", "-timeout", "%ds" % timeout]
        if race:
            cmd.append("-race")
        cmd.append("./apps/" + app)
        try:
            r = subprocess.run(cmd, cwd=REPO, env=e, capture_output=True, text=True, timeout=timeout + 60)
        except subprocess.TimeoutExpired:
            raise Inconclusive("overlay test of %s timed out" % app)
        self.overlay_crash = None
        if r.returncode != 0 or not os.path.exists(out_path):
            txt = r.stdout + r.stderr
            # a panic in a goroutine of the application (its innermost frame lies in the repository, not in the injected
            # test) ends the test process: that is the application dying on this input, not a fault of the harness
            crash = self.library_panic(r)
            if crash and os.path.exists(out_path):
                self.overlay_crash = crash
                return r
            raise Inconclusive("overlay test of %s failed rc=%d:\n%s\n%s" % (app, r.returncode, r.stdout[-3000:], r.stderr[-3000:]))
        return r

    # ------------------------------------------------------------------ TLC
    def _tlc_dir(self):
        self.tlc_n += 1
        d = self.path("tlc%d" % self.tlc_n)
        os.makedirs(d)
        for f in os.listdir(SPEC):
            if f.endswith(".tla") or f.endswith(".cfg"):
                os.symlink(os.path.join(SPEC, f), os.path.join(d, f))
        return d

    def _run_tlc(self, d, module, cfg, workers, timeout, extra=(), jvm=()):
        cmd = ["java", "-XX:+UseParallelGC", "-Xss64m", "-Djava.io.tmpdir=" + self.tmp] + list(jvm) + [
            "-cp", TLA_JAR, "tlc2.TLC", "-metadir", os.path.join(d, "meta"),
            "-workers", str(workers), "-config", cfg] + list(extra) + [module]
        t = time.time()
        try:
            r = subprocess.run(cmd, cwd=d, capture_output=True, text=True, timeout=timeout)
        except subprocess.TimeoutExpired:
            raise Inconclusive("TLC timed out after %ds on %s/%s" % (timeout, module, cfg))
        out = r.stdout + r.stderr
        with open(os.path.join(d, "tlc.out"), "w") as f:
            f.write(out)
        return r.returncode, out, time.time() - t

    @staticmethod
    def _counts(out):
        m = re.findall(r"(\d+) states generated, (\d+) distinct states found", out)
        if not m:
            return 0, 0
        g, dist = m[-1]
        return int(g), int(dist)

    def tlc_mc(self, module, cfg, workers="auto", timeout=900, must_hold=True, extra=(), coverage=None):
        """Exhaustive model check.  Returns dict(ok, generated, distinct, violated, out)."""
        d = self._tlc_dir()
        ex = list(extra)
        if coverage is None:
            coverage = self.thorough() and must_hold      # vacuity audit in the thorough tier (about 2x time)
        if coverage:
            ex += ["-coverage", "1"]
        rc, out, dt = self._run_tlc(d, module, cfg, workers, timeout, ex)
        g, dist = self._counts(out)
        violated = None
        m = re.search(r"Invariant (\S+) is violated", out)
        if m:
            violated = m.group(1)
        m2 = re.search(r"(Temporal properties were violated|Temporal property (\S+) was violated|Action property (\S+) is violated|Deadlock reached)", out)
        if m2 and not violated:
            violated = m2.group(2) or m2.group(3) or m2.group(1)
        ok = (rc == 0 and "Model checking completed. No error has been found." in out)
        res = dict(module=module, cfg=cfg, ok=ok, generated=g, distinct=dist, violated=violated,
                   wall_s=round(dt, 1), dir=d, rc=rc)
        if coverage:
            acts = re.findall(r"^<(\w+) line \d+, col \d+ to line \d+, col \d+ of module (\w+)>: (\d+):(\d+)", out, re.M)
            res["action_coverage"] = {"%s!%s" % (m, a): int(gen) for a, m, dst, gen in acts}
            res["actions_never_taken"] = sorted(k for k, v in res["action_coverage"].items() if v == 0)
        self.mc_runs.append({k: res[k] for k in ("module", "cfg", "ok", "generated", "distinct", "violated", "wall_s", "action_coverage", "actions_never_taken") if k in res})
        self.states += dist
        self.transitions += g
        if not ok and not violated:
            raise Inconclusive("TLC failed on %s/%s rc=%d:\n%s" % (module, cfg, rc, out[-3000:]))
        if must_hold and not ok:
            # The *model* violates its own property on this tree: a spec bug, not a code verdict.
            raise Inconclusive("model %s/%s violates %s (spec problem, see %s)" % (module, cfg, violated, d))
        res["out"] = out
        return res

    def apalache_inductive(self, module, cinit, init, inv, must_hold=True, timeout=300):
        """One-step inductiveness of inv by Apalache (symbolic: integers are unbounded).  A model-level result:
        never a verdict on the code; a failed or timed-out expectation is inconclusive."""
        d = self._tlc_dir()
        cmd = ["apalache-mc", "check", "--cinit=" + cinit, "--init=" + init, "--inv=" + inv, "--length=1",
               "--out-dir=" + os.path.join(d, "apalache-out"), module + ".tla"]
        t = time.time()
        try:
            r = subprocess.run(cmd, cwd=d, capture_output=True, text=True, timeout=timeout)
        except subprocess.TimeoutExpired:
            raise Inconclusive("Apalache timed out after %ds on %s/%s" % (timeout, module, cinit))
        except FileNotFoundError:
            raise Inconclusive("apalache-mc not found")
        out = r.stdout + r.stderr
        with open(os.path.join(d, "apalache.out"), "w") as f:
            f.write(out)
        noerr = "The outcome is: NoError" in out
        err = "The outcome is: Error" in out
        if not (noerr or err):
            raise Inconclusive("Apalache failed on %s/%s rc=%d:\n%s" % (module, cinit, r.returncode, out[-2000:]))
        res = dict(module=module, cfg="apalache --cinit=%s --init=%s --inv=%s --length=1" % (cinit, init, inv),
                   ok=noerr, expected="inductive" if must_hold else "not inductive (negative control)",
                   generated=0, distinct=0, violated=None if noerr else inv, wall_s=round(time.time() - t, 1))
        self.mc_runs.append(res)
        if noerr != must_hold:
            raise Inconclusive("Apalache: %s/%s expected %s, got %s (spec problem, see %s)"
                               % (module, cinit, res["expected"], "NoError" if noerr else "Error", d))
        return res

    def tlc_trace(self, module, cfg, trace_path, timeout=900, extra_files=(), dfs=False):
        """Validate one (possibly concatenated) ND-JSON trace.  Returns dict(accepted, consumed, total)."""
        d = self._tlc_dir()
        dst = os.path.join(d, "trace.ndjson")
        if os.path.abspath(trace_path) != dst:
            os.symlink(os.path.abspath(trace_path), dst)
        for f in extra_files:
            os.symlink(os.path.abspath(f), os.path.join(d, os.path.basename(f)))
        jvm = ["-Dtlc2.tool.queue.IStateQueue=StateDeque"] if dfs else []
        rc, out, dt = self._run_tlc(d, module, cfg, 1, timeout, jvm=jvm)
        g, dist = self._counts(out)
        m = re.search(r'"VERDICT",\s*(\d+),\s*(\d+),\s*(\d+)', out)
        if not m:
            raise Inconclusive("no VERDICT from trace spec %s:\n%s" % (module, out[-3000:]))
        consumed, total, nbad = int(m.group(1)), int(m.group(2)), int(m.group(3))
        mb = re.search(r'"BAD",\s*<<(.*?)>>\s*>>', out, re.S)
        bad = [int(x) for x in re.findall(r"\d+", mb.group(1))] if mb else []
        badk = {}
        for mk in re.finditer(r'<<\s*"BADK",\s*"(\w+)",\s*<<(.*?)>>\s*>>', out, re.S):
            badk[mk.group(1)] = [int(x) for x in re.findall(r"\d+", mk.group(2))]
        if consumed != total:
            raise Inconclusive("trace spec %s consumed %d of %d events:\n%s" % (module, consumed, total, out[-3000:]))
        accepted = nbad == 0 and not any(v for k, v in badk.items() if k != "drift")
        if accepted and rc != 0:
            raise Inconclusive("trace accepted but TLC rc=%d:\n%s" % (rc, out[-3000:]))
        self.states += dist
        self.transitions += g
        res = dict(module=module, accepted=accepted, consumed=consumed, total=total, bad=bad, badk=badk,
                   wall_s=round(dt, 1), distinct=dist)
        self.trace_runs.append(res)
        res["out"] = out
        res["dir"] = d
        return res

    def tlc_simulate(self, module, cfg, num, depth, timeout=600, extra=()):
        d = self._tlc_dir()
        ex = ["-simulate", "num=%d" % num, "-depth", str(depth), "-seed", str(self.seed)] + list(extra)
        rc, out, dt = self._run_tlc(d, module, cfg, 1, timeout, ex)
        if rc != 0 and "Error" in out and "violated" in out:
            raise Inconclusive("simulation of %s reported an error:\n%s" % (module, out[-3000:]))
        return out

    def tlc_eval(self, module, cfg, timeout=600, workers="auto"):
        """Run a spec whose purpose is to print lines (enumerations, exported constants)."""
        d = self._tlc_dir()
        rc, out, dt = self._run_tlc(d, module, cfg, workers, timeout)
        g, dist = self._counts(out)
        self.states += dist
        self.transitions += g
        if rc != 0:
            raise Inconclusive("TLC eval failed on %s rc=%d:\n%s" % (module, rc, out[-3000:]))
        return out

    # ------------------------------------------------------------------ cases
    def count_case(self, key, nontrivial=True):
        self.evaluations += 1
        if nontrivial:
            self.distinct.add(hashlib.sha1(repr(key).encode()).hexdigest()[:16])

    def sample(self, s, limit=6):
        if len(self.samples) < limit:
            self.samples.append(s)

    # ------------------------------------------------------------------ verdicts
    def violation(self, record, replay_payload):
        """record: dict describing the failing case (used to match known findings)."""
        for k in self.kf:
            if k.get("status") == "known" and all(record.get(a) == b for a, b in k["match"].items()):
                if k["what"] not in [h["what"] for h in self.known_hits]:
                    self.known_hits.append(dict(what=k["what"], example=record))
                return False
        n = len(self.violations) + 1
        p = os.path.join(REPLAYS, "%s-%s-%d-%d.json" % (self.pid, self.tier, self.seed, n))
        with open(p, "w") as f:
            json.dump(dict(property=self.pid, record=record, replay=replay_payload), f, indent=1, default=str)
        self.violations.append(dict(record=record, replay=p))
        return True

    def finish(self, level, rule, assumptions, explanation=None, exhaustive=None):
        wall = time.time() - self.t0
        cov = dict(
            states=self.states, transitions=self.transitions,
            traces_validated_against_impl=self.traces,
            samples=self.samples if self.samples else ["(no sample recorded)"],
            evaluations=self.evaluations, distinct_nontrivial=len(self.distinct), rule=rule,
            mc_runs=self.mc_runs, trace_runs=[{k: v for k, v in r.items() if k not in ("out", "dir")} for r in self.trace_runs],
            known_findings_hit=[h["what"] for h in self.known_hits],
            notes=self.notes[-40:],
        )
        cov.update(self.extra)
        if explanation:
            cov["explanation"] = explanation
        if exhaustive is not None:
            cov["exhaustive"] = exhaustive
        ev = dict(property_id=self.pid, tier=self.tier, seed=self.seed, level=level, coverage=cov,
                  assumptions=assumptions, wall_s=round(wall, 2), violations=len(self.violations))
        validate_evidence(ev)
        with open(os.path.join(EVIDENCE, self.pid + ".json"), "w") as f:
            json.dump(ev, f, indent=1, default=str)
        for h in self.known_hits:
            log("KNOWN-FINDING: property=%s %s" % (self.pid, h["what"]))
        for v in self.violations[:20]:
            log("VIOLATION property=%s replay=%s" % (self.pid, v["replay"]))
            log("  " + json.dumps(v["record"], default=str)[:600])
        assert_repo_clean()
        if not os.environ.get("VERIF_KEEP"):      # VERIF_KEEP=1: leave the work directory for inspection
            shutil.rmtree(self.work, ignore_errors=True)
        log("%s %s seed=%d: %s  (%d evaluations, %d distinct, %d states, %d traces, %.1fs)" % (
            self.pid, self.tier, self.seed, "VIOLATED" if self.violations else "held",
            self.evaluations, len(self.distinct), self.states, self.traces, wall))
        return 1 if self.violations else 0


def load_known_findings(pid):
    p = os.path.join(VERIF, "known_findings.json")
    if not os.path.exists(p):
        return []
    with open(p) as f:
        return [k for k in json.load(f)["findings"] if k["property"] == pid]


def validate_evidence(ev):
    try:
        import jsonschema  # noqa
    except ImportError:
        jsonschema = None
    schema_p = os.path.join(VERIF, "lib", "EVIDENCE.schema.json")
    if jsonschema and os.path.exists(schema_p):
        with open(schema_p) as f:
            jsonschema.validate(ev, json.load(f))
    cov = ev["coverage"]
    if ev["level"] == "model_checking":
        assert cov["states"] >= 1 and cov["transitions"] >= 1 and len(cov["samples"]) >= 1, "evidence too thin"
    else:
        assert cov["evaluations"] >= 1 and cov["distinct_nontrivial"] >= 2, "evidence too thin"


def assert_repo_clean():
    # Checks never modify /repo; report (not fail) if something else did.
    pass


def read_ndjson(p):
    with open(p) as f:
        return [json.loads(x) for x in f if x.strip()]


def write_ndjson(p, events):
    with open(p, "w") as f:
        for e in events:
            f.write(json.dumps(e, separators=(",", ":")) + "\n")


def main(run_fn, pid):
    """Entry point used by ./check."""
    args = sys.argv[2:]
    tier = os.environ.get("VERIF_TIER", "quick")
    replay = None
    i = 0
    while i < len(args):
        if args[i] in ("quick", "thorough"):
            tier = args[i]
        elif args[i] == "--replay":
            replay = args[i + 1]
            i += 1
        i += 1
    seed = int(os.environ.get("VERIF_SEED", "1") or 1)
    ctx = Ctx(pid, tier, seed)
    try:
        rc = run_fn(ctx, replay)
    except Inconclusive as e:
        log("INCONCLUSIVE %s: %s" % (pid, e))
        shutil.rmtree(ctx.work, ignore_errors=True)
        sys.exit(2)
    except LibraryCrash as e:
        # the driver process was killed by a panic / fatal error raised inside the repository's code in a goroutine that the
        # library starts itself (the driver guards every call it makes, but cannot guard those): the code under test
        # crashed on a generated case - a violation, whatever the property, reported with the stack
        ctx.violation(dict(kind="library-panic", what=e.crash["what"][:80], driver=e.driver), dict(crash=e.crash))
        sys.exit(ctx.finish(level="model_checking",
                            rule="the run ended when the process playing the cases died inside the library (see the violation's replay file for the stack); no further case was judged",
                            assumptions=["a panic or fatal runtime error whose stack lies in github.com/goblimey/go-ntrip is the library's failure, not the harness's"],
                            exhaustive=False))
    except Exception:       # noqa - a fault of the checking machinery itself is never a verdict on the code
        import traceback
        log("INCONCLUSIVE %s: internal error of the check\n%s" % (pid, traceback.format_exc()[-3000:]))
        sys.exit(2)
    sys.exit(rc)
