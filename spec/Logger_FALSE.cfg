CONSTANT NBlocks = 3
CONSTANT WaitForRecorder = FALSE
SPECIFICATION Spec
INVARIANT C16AtExit
INVARIANT C16Prefix
PROPERTY Exits
CHECK_DEADLOCK FALSE
