CONSTANT CS = {"gps","galileo"}
CONSTANT Horizon = 75
CONSTANT FirstNotBeforeT = FALSE
CONSTANT SwLose = FALSE
CONSTANT SwGal = FALSE
CONSTANT SwInit = FALSE
INIT Init
NEXT Next
INVARIANT Correct
CHECK_DEADLOCK FALSE
INVARIANT StateTracksTruth
