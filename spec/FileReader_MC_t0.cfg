CONSTANT N = 7
CONSTANT Wait = 5
CONSTANT Timeout = 0
CONSTANT Transient = TRUE
SPECIFICATION Spec
INVARIANT NoInvention
INVARIANT C13
PROPERTY Stops
CHECK_DEADLOCK FALSE
