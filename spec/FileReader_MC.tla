---------------------------- MODULE FileReader_MC ----------------------------
(***************************************************************************)
(* FileReader (L1) => ReaderFaults (L0) for every script up to N results.  *)
(***************************************************************************)
EXTENDS FileReader, TLC

CONSTANT N, Transient     \* Transient: Wait << Timeout or Timeout = 0 (the regime the property defines)

VARIABLES script, st
vars == <<script, st>>

Init == /\ script \in UNION {[1..n -> Kinds] : n \in 0..N}
        /\ st = St0
Next == /\ st.ret = ""
        /\ st' = Step(script, st)
        /\ UNCHANGED script
Spec == Init /\ [][Next]_vars /\ WF_vars(Next)

\* safety in every regime: never more forwarded than supplied, never past the first X
NoInvention == st.fwd <= Len(SelectSeq(SubSeq(script, 1, IF st.pos - 1 <= Len(script) THEN st.pos - 1 ELSE Len(script)), LAMBDA k : k = "D"))
\* C13 in the transient regime
C13 == (Transient /\ st.ret # "") =>
          /\ st.pos - 1 = Stop(script)
          /\ st.fwd = DataBefore(script, Stop(script))
          /\ st.ret = RetKind(script)
Stops == <>(st.ret # "")
=============================================================================
