INIT Init
NEXT Next
CONSTRAINT Rec
POSTCONDITION VerdictT
CHECK_DEADLOCK FALSE
