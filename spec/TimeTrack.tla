------------------------------ MODULE TimeTrack ------------------------------
(***************************************************************************)
(* L1: the week-rollover tracking of rtcm/handler (New, getUTCFromGPSTime, *)
(* getUTCFromGalileoTime, getUTCFromBeidouTime, getUTCFromGlonassTime,     *)
(* getUTCFromTimestamp, getStartOfWeek), and L0: what the true answer is.  *)
(*                                                                         *)
(* Time is an integer number of ticks since a base Sunday 00:00 UTC.       *)
(* The module is parameterised so that it runs with toy constants          *)
(* (TimeTrack_MC: W = 28 ticks) and with the real ones (Time_Trace:        *)
(* milliseconds, W = 604 800 000).                                         *)
(*   W       ticks per week          D   ticks per day (W = 7 D)           *)
(*   Off[c]  start of constellation c's week relative to Sunday 00:00 UTC  *)
(*           (real: GPS/Galileo -18 s, BeiDou -4 s, GLONASS -3 h)          *)
(*   GloShift  factor of the GLONASS day field (real: 2^27)                *)
(* Switches name the deviations found in the code at the pinned commit so  *)
(* that TLC can produce their counterexamples for replay (all FALSE = the  *)
(* intended design, which is what the repaired code implements):           *)
(*   LoseUpdates         state updates made while converting are lost      *)
(*   GalileoUsesGPSWeek  Galileo conversion based on the GPS week start    *)
(*   InitPrevFromStart   previous timestamps initialised from start time   *)
(***************************************************************************)
EXTENDS Integers

CONSTANTS W, D, Off, GloShift, LoseUpdates, GalileoUsesGPSWeek, InitPrevFromStart

Cons == {"gps", "galileo", "glonass", "beidou"}

\* ---------------------------------------------------------------- L0: truth
\* start of the week of constellation c that contains instant u
WeekStart(c, u) == ((u - Off[c]) \div W) * W + Off[c]
InWeek(c, u) == u - WeekStart(c, u)                      \* 0 .. W-1
\* the 30-bit timestamp a receiver puts into an MSM observed at instant u
TsOf(c, u) == IF c = "glonass"
              THEN (InWeek(c, u) \div D) * GloShift + (InWeek(c, u) % D)
              ELSE InWeek(c, u)
\* legal timestamps
LegalTs(c, ts) == IF c = "glonass"
                  THEN ts \div GloShift <= 6 /\ ts % GloShift < D
                  ELSE ts < W

\* ------------------------------------------------- L1: the handler's algorithm
\* handler state h: [ws |-> [Cons -> Int], prev |-> [Cons -> Nat]]   (prev["glonass"] is the previous day)
New(T) ==
  [ ws   |-> [c \in Cons |-> WeekStart(c, T)],
    prev |-> [c \in Cons |->
                IF c = "glonass" THEN 0                       \* day of previous message starts at 0
                ELSE IF InitPrevFromStart
                     THEN T - WeekStart(IF c = "galileo" THEN "gps" ELSE c, T)
                     ELSE 0] ]

\* result of converting one timestamp: [err, time, sow, h]
Convert(h, c, ts) ==
  IF ~LegalTs(c, ts) THEN [err |-> TRUE, time |-> 0, sow |-> h.ws[c], h |-> h]
  ELSE IF c = "glonass"
  THEN LET day == ts \div GloShift
           ms == ts % GloShift
           ws2 == IF day < h.prev[c] THEN h.ws[c] + W ELSE h.ws[c]
           h2 == [h EXCEPT !.ws[c] = ws2, !.prev[c] = day]
           hh == IF LoseUpdates THEN h ELSE h2
       IN [err |-> FALSE, time |-> ws2 + day * D + ms, sow |-> hh.ws[c], h |-> hh]
  ELSE LET base == IF c = "galileo" /\ GalileoUsesGPSWeek THEN h.ws["gps"] ELSE h.ws[c]
           ws2 == IF h.prev[c] > ts THEN base + W ELSE base
           h2 == [h EXCEPT !.ws[c] = ws2, !.prev[c] = ts]
           hh == IF LoseUpdates THEN h ELSE h2
       IN [err |-> FALSE, time |-> ws2 + ts, sow |-> hh.ws[c], h |-> hh]
=============================================================================
