------------------------------ MODULE MSMGuards ------------------------------
(***************************************************************************)
(* The length guards of the decoders as implemented (header.GetMSMHeader,  *)
(* satellite.GetSatelliteCells and signal.GetSignalCells of MSM4 / MSM7,   *)
(* handler.GetMessage's timestamp read, type1005 / type1006), as functions *)
(* of the payload length L (bytes), the mask sizes and the cell count.     *)
(* Used by C07_Cases (in-bounds invariant, case space) and by C07_Trace    *)
(* (L1 conformance: the real decoders accept exactly when the model does). *)
(***************************************************************************)
EXTENDS MSM

TypeOfFam(f) == IF f = "msm7" THEN 1077 ELSE 1074
FrameBits(L) == 8 * (L + 6)
Lens == 1..1023

\* ---- guards as implemented (after the fixes) --------------------------------
TsAccept(L) == 8 * L >= 54                                 \* handler.GetMessage
TsMaxRead == P0 + 54
HdrAccept(L, ns, ng) == /\ 8 * L >= MinHdrBits             \* header.GetMSMHeader
                        /\ ns * ng <= 64
                        /\ FrameBits(L) >= 48 + MinHdrBits + ns * ng
HdrMaxRead(ns, ng) == P0 + HdrBits(ns, ng)
SatAccept(t, L, ns, ng) ==                                 \* satellite.GetSatelliteCells
    IF IsMSM7(t) THEN FrameBits(L) - SatDataPos(ns, ng) >= ns * SatCellBits(t)
                 ELSE FrameBits(L) - SatDataPos(ns, ng) - 24 >= ns * SatCellBits(t)
SatMaxRead(t, ns, ng) == SigDataPos(t, ns, ng)
\* signal.GetSignalCells reads at most the cells that fit in the bits left in the frame
CellsThatFit(t, L, ns, ng) == (FrameBits(L) - SigDataPos(t, ns, ng)) \div SigCellBits(t)
CellsRead(t, L, ns, ng, nc) == IF nc < CellsThatFit(t, L, ns, ng) THEN nc ELSE CellsThatFit(t, L, ns, ng)
Accept1005(L) == 8 * L >= 152
Accept1006(L) == 8 * L >= 168


\* signal.GetSignalCells: a continued message (flag set) needs room for one cell - MSM4 measures the
\* room without the CRC, MSM7 with it; otherwise all nc cells must fit (both count the CRC bits as room)
SigAccept(t, L, ns, ng, nc, mm) ==
    IF mm = 1
    THEN (IF IsMSM7(t) THEN FrameBits(L) - SigDataPos(t, ns, ng) ELSE FrameBits(L) - SigDataPos(t, ns, ng) - 24) >= SigCellBits(t)
    ELSE CellsThatFit(t, L, ns, ng) >= nc
DecodeAccept(t, L, ns, ng, nc, mm) ==
    HdrAccept(L, ns, ng) /\ SatAccept(t, L, ns, ng) /\ SigAccept(t, L, ns, ng, nc, mm)
=============================================================================
