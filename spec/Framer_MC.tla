----------------------------- MODULE Framer_MC -----------------------------
(***************************************************************************)
(* Exhaustive check of the framer design (FramerCore) against the property *)
(* specifications C01, C02, C03, C12 for EVERY stream over a toy alphabet  *)
(* up to N bytes and every end-of-input position.                          *)
(*                                                                         *)
(* Toy format: alphabet 0..3, start byte 3, leader <<3, L>> with L in      *)
(* {1,2} acceptable (0 = "zero length", 3 = "reserved bits set"), payload  *)
(* of L bytes whose first byte is the type, one checksum byte = sum of all *)
(* preceding bytes mod 4.  Every relational feature of the real format is  *)
(* kept: the start byte can occur in payload and checksum, the length      *)
(* comes from the leader, the checksum depends on every preceding byte,    *)
(* the leader is judged only after ProbeLen = LeaderLen + 1 bytes.         *)
(***************************************************************************)
EXTENDS Integers, Sequences, SequencesExt, FiniteSetsExt, TLC

CONSTANT N

ToySOF == 3
ToyLeaderOK(f) == f[2] \in {1, 2}
ToyFrameLen(f) == 2 + f[2] + 1
ToySum(f) == FoldLeft(LAMBDA a, b : a + b, 0, f)
ToyCRCOK(f) == f[Len(f)] = ToySum(Front(f)) % 4
ToyTypeOf(f) == f[3]

F == INSTANCE FramerCore WITH SOFc <- ToySOF, LeaderLen <- 2, ProbeLen <- 3,
        LeaderOK <- ToyLeaderOK, FrameLen <- ToyFrameLen, CRCOK <- ToyCRCOK, TypeOf <- ToyTypeOf

VARIABLES stream,   \* the whole input (constant along a behaviour)
          rest,     \* input not yet taken from the channel
          st        \* framer state

vars == <<stream, rest, st>>

Init == /\ stream \in UNION {[1..n -> 0..3] : n \in 0..N}
        /\ rest = stream
        /\ st = F!St0

Next == /\ ~st.done
        /\ LET r == F!StepOn(st, rest) IN st' = r[1] /\ rest' = r[2]
        /\ UNCHANGED stream

Spec == Init /\ [][Next]_vars /\ WF_vars(Next)

fed == SubSeq(stream, 1, Len(stream) - Len(rest))

----------------------------------------------------------------------------
\* C01: only complete checksum-valid frames are presented as typed messages
C01 == \A i \in 1..Len(st.out) :
          st.out[i].type >= 0 => F!IsValid(st.out[i].raw) /\ st.out[i].type = ToyTypeOf(st.out[i].raw)

\* C02: lossless; no empty message; everything delivered when the output is closed
C02 == /\ IsPrefix(F!Concat(st.out), fed)
       /\ \A i \in 1..Len(st.out) : st.out[i].raw # <<>>
       /\ st.done => F!Concat(st.out) = stream

\* L1 inductive strengthening of C02: nothing is in flight except frame and push-back
C02ind == F!Concat(st.out) \o st.frame \o st.pb = fed

\* C03: on well-structured streams the output is the declarative parse
C03 == st.done => LET p == F!Parse(stream, FALSE) IN p.ok => st.out = p.msgs

\* C12: same with checksum-failing candidates allowed (each delivered alone, neighbours intact)
C12 == st.done => LET p == F!Parse(stream, TRUE) IN p.ok => st.out = p.msgs

\* the push-back buffer never holds more than the one start byte
PBSmall == Len(st.pb) <= 1 /\ (st.pb # <<>> => st.pb = <<ToySOF>> /\ st.phase = "eat" /\ st.frame = <<>>)

\* vacuity guards (expected to be VIOLATED when checked: used only by the selftest)
SomeTyped == ~(st.done /\ \E i \in 1..Len(st.out) : st.out[i].type >= 0)
Terminates == <>st.done
=============================================================================
