CONSTANT CS = {"gps","beidou"}
CONSTANT Horizon = 96
CONSTANT FirstNotBeforeT = FALSE
CONSTANT SwLose = FALSE
CONSTANT SwGal = FALSE
CONSTANT SwInit = TRUE
CONSTANT K = 99
INIT SInit
NEXT SNext
INVARIANT Correct
CHECK_DEADLOCK FALSE
