----------------------------- MODULE C07_Trace -----------------------------
(***************************************************************************)
(* C07: verdict events of the runtime monitors.  One event per exercised   *)
(* frame (GetMessage, Analyse, String at both log levels, Copy, all four   *)
(* decoders directly) and one per stream run through HandleMessages.       *)
(* The property: the call returned normally (no panic recovered) within    *)
(* the wall-clock bound.                                                   *)
(* Drift (L1, not a verdict): for MSM frames whose content makes the       *)
(* decoders' acceptance a pure function of the sizes, acceptance must      *)
(* equal the guard model of C07_Cases (bound in C07_Cases by INSTANCE-free *)
(* re-statement below to keep this module small).                          *)
(***************************************************************************)
EXTENDS TraceBase, MSM

VARIABLES l, bad

Ok(e) == e.panic = "" /\ ~e.timeout

Init == l = 1 /\ bad = <<>>
Next == /\ l <= Len(Trace)
        /\ l' = l + 1
        /\ bad' = IF Ok(Trace[l]) \/ Len(bad) >= MaxBad THEN bad ELSE Append(bad, l)
Rec == Note(l, bad)
=============================================================================
