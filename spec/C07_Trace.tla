----------------------------- MODULE C07_Trace -----------------------------
(***************************************************************************)
(* C07: verdict events of the runtime monitors.  One event per exercised   *)
(* frame (GetMessage, Analyse, String at both log levels, Copy, all four   *)
(* decoders directly) and one per stream run through HandleMessages.       *)
(* The property: the call returned normally (no panic recovered) within    *)
(* the wall-clock bound.                                                   *)
(* Drift (L1, not a verdict): for MSM frames whose content makes the       *)
(* decoders' acceptance a pure function of the sizes, acceptance must      *)
(* equal the guard model of C07_Cases (bound in C07_Cases by INSTANCE-free *)
(* re-statement below to keep this module small).                          *)
(***************************************************************************)
EXTENDS TraceBase, MSMGuards

VARIABLES l, bad, drift

Ok(e) == e.panic = "" /\ ~e.timeout

\* L1: for frames built from a mask shape, the decoder of the frame's own family accepts exactly when the guards say so
Conforms(e) ==
    e.fam \in {"msm4", "msm7"} /\ e.panic = "" /\ ~e.timeout =>
        LET model == DecodeAccept(e.type, e.len, e.nsat, e.nsig, e.ncell, e.flag) IN
        IF e.fam = "msm7" THEN e.acc7 = model ELSE e.acc4 = model

Init == l = 1 /\ bad = <<>> /\ drift = <<>>
Next == /\ l <= Len(Trace)
        /\ l' = l + 1
        /\ bad' = IF Ok(Trace[l]) \/ Len(bad) >= MaxBad THEN bad ELSE Append(bad, l)
        /\ drift' = IF Conforms(Trace[l]) \/ Len(drift) >= MaxBad THEN drift ELSE Append(drift, l)
Rec == Note(l, bad) /\ TLCSet(3, drift)
VerdictC07 == PrintT(<<"BADK", "drift", TLCGet(3)>>) /\ Verdict
=============================================================================
