CONSTANT NC = 6
CONSTANT NS = 4
CONSTANT MaxChunk = 3
CONSTANT MsgLen = 2
CONSTANT QN = 2
CONSTANT ParserCanCrash = TRUE
SPECIFICATION Spec
INVARIANT RelayPrefix
INVARIANT StaysAlive
INVARIANT ReportOnlyRelayed
PROPERTY RelayCompletes
CHECK_DEADLOCK FALSE
