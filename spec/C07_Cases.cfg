CONSTANT NSats = {0, 1, 2, 3, 7, 8, 9, 16, 21, 22, 32, 33, 63, 64}
CONSTANT NSigs = {0, 1, 2, 3, 4, 8, 9, 16, 32}
INIT Init
NEXT Next
INVARIANT InBounds
INVARIANT EmitAll
CHECK_DEADLOCK FALSE
