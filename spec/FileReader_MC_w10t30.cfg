CONSTANT N = 7
CONSTANT Wait = 10
CONSTANT Timeout = 30
CONSTANT Transient = TRUE
SPECIFICATION Spec
INVARIANT NoInvention
INVARIANT C13
PROPERTY Stops
CHECK_DEADLOCK FALSE
