---------------------------- MODULE FileReader_Sim ----------------------------
(* Emits random scripts of the bounded FileReader model for replay (direction B). *)
EXTENDS FileReader_MC, Json
Dump == st.ret # "" => PrintT(<<"SCRIPT", ToJson([script |-> script, fwd |-> st.fwd, ret |-> st.ret])>>)
=============================================================================
