----------------------------- MODULE Time_Trace -----------------------------
(***************************************************************************)
(* Trace validation of the real handler's MSM time conversion (through     *)
(* GetMessage and through HandleMessages) with the real constants:         *)
(* milliseconds, GPS/Galileo weeks start 18 s, BeiDou weeks 4 s before     *)
(* Sunday 00:00 UTC, GLONASS weeks 3 h before (Moscow time).               *)
(* Instants are integers: ms since the base Sunday 00:00 UTC, which is one *)
(* week before the UTC week of the start time; in the trace and in the L0   *)
(* part they are pairs <<week, ms in week>>, so sessions may span any number *)
(* of weeks (the integer L1 model is followed for the first three).         *)
(*                                                                         *)
(*   [ev |-> "new", T]                          handler created at T       *)
(*   [ev |-> "obs", c, ts, u, err, sent, sow]   legal MSM observed at u    *)
(*   [ev |-> "bad", c, ts, err, sent, sow]      illegal timestamp          *)
(* L0 (TrueTime): preconditions of C06 / C17 are decided here, not assumed *)
(* by the generator.  bad.c06 / bad.c17: rejected events; bad.driver: the  *)
(* driver's own encoding disagrees with TsOf (harness fault, inconclusive);*)
(* bad.drift: the code left the L1 TimeTrack model (not a verdict).        *)
(***************************************************************************)
EXTENDS TraceBase

RW == 604800000
RD == 86400000
RealOff == [c \in {"gps", "galileo", "glonass", "beidou"} |->
              CASE c = "gps" -> -18000 [] c = "galileo" -> -18000 [] c = "glonass" -> -10800000 [] c = "beidou" -> -4000]

TT == INSTANCE TimeTrack WITH W <- RW, D <- RD, Off <- RealOff, GloShift <- 134217728,
         LoseUpdates <- FALSE, GalileoUsesGPSWeek <- FALSE, InitPrevFromStart <- FALSE

VARIABLES l, T, last, live, pre06, h, insync, bad
vars == <<l, T, last, live, pre06, h, insync, bad>>

NoBad == [c06 |-> <<>>, c17 |-> <<>>, driver |-> <<>>, drift |-> <<>>]
Add(b, key, ok) == IF ok \/ Len(b[key]) >= MaxBad THEN b ELSE [b EXCEPT ![key] = Append(@, l)]

\* ---- L0 in pair arithmetic: an instant is <<UTC week index, ms in that week>>; nothing exceeds 2^31, so a session
\* ---- may span any number of weeks.  (The L1 model below works on plain integers and is only followed for the
\* ---- first three weeks of a session.)
Off(c) == RealOff[c]                                   \* negative: the constellation week starts |Off| ms before Sunday 00:00 UTC
CWeek(c, p) == IF p[2] - Off(c) >= RW THEN p[1] + 1 ELSE p[1]        \* index of the constellation week containing p
CIn(c, p) == (p[2] - Off(c)) % RW                                    \* ms into that constellation week
WeekStartP(c, p) == << CWeek(c, p) - 1, RW + Off(c) >>               \* its start as a UTC pair
TsOfP(c, p) == IF c = "glonass" THEN (CIn(c, p) \div RD) * 134217728 + (CIn(c, p) % RD) ELSE CIn(c, p)
LeP(p, q) == p[1] < q[1] \/ (p[1] = q[1] /\ p[2] <= q[2])
\* q - p < six days (given LeP(p, q))
WithinSixDays(p, q) == q[1] - p[1] <= 1 /\ (q[1] - p[1]) * RW + q[2] - p[2] < 6 * RD
Small(p) == p[1] <= 2                                  \* instants the integer model can represent

Inst(p) == p[1] * RW + p[2]
Pair(x) == << x \div RW, x % RW >>
NoneP == << -1, 0 >>

Init == /\ l = 1 /\ T = <<1, 0>> /\ last = [c \in TT!Cons |-> NoneP] /\ live = FALSE /\ pre06 = FALSE
        /\ h = TT!New(RW) /\ insync = FALSE /\ bad = NoBad

OnNew(e) ==
    /\ T' = e.T /\ last' = [c \in TT!Cons |-> NoneP] /\ live' = TRUE /\ pre06' = TRUE
    /\ h' = TT!New(Inst(e.T)) /\ insync' = TRUE /\ UNCHANGED bad

OnObs(e) ==
    LET c == e.c
        u == e.u
        tsok == e.ts = TsOfP(c, u)
        first == last[c] = NoneP
        pre == IF first THEN CWeek(c, u) = CWeek(c, T)
               ELSE LeP(last[c], u) /\ WithinSixDays(last[c], u)
        first06 == first => LeP(T, u)
        good == e.err = "" /\ e.sent = u /\ e.sow = WeekStartP(c, u)
        lv == live /\ pre /\ tsok
        p6 == pre06 /\ first06
        follow == insync /\ Small(u)
        r == TT!Convert(h, c, e.ts)
        l1ok == (r.err = (e.err # "")) /\ (~r.err => e.sent = Pair(r.time) /\ e.sow = Pair(r.sow))
    IN /\ bad' = Add(Add(Add(Add(bad, "driver", tsok), "c17", ~lv \/ good), "c06", ~(lv /\ p6) \/ good),
                     "drift", ~follow \/ l1ok)
       /\ live' = lv /\ pre06' = p6
       /\ last' = [last EXCEPT ![c] = u]
       /\ insync' = (follow /\ l1ok)
       /\ h' = IF follow /\ l1ok THEN r.h ELSE h
       /\ UNCHANGED T

OnBad(e) ==
    LET good == e.err # "" /\ e.sent = <<>>
        isbad == ~TT!LegalTs(e.c, e.ts)
        r == TT!Convert(h, e.c, e.ts)
    IN /\ bad' = Add(Add(Add(Add(bad, "driver", isbad), "c17", ~live \/ good), "c06", ~(live /\ pre06) \/ good),
                     "drift", ~insync \/ r.err = (e.err # ""))
       /\ UNCHANGED <<T, last, live, pre06, h, insync>>

Next == /\ l <= Len(Trace)
        /\ l' = l + 1
        /\ LET e == Trace[l] IN
             CASE e.ev = "new" -> OnNew(e)
               [] e.ev = "obs" -> OnObs(e)
               [] e.ev = "bad" -> OnBad(e)

Rec == TLCSet(1, l) /\ TLCSet(2, bad)
VerdictT ==
    LET b == TLCGet(2) IN
    /\ PrintT(<<"VERDICT", TLCGet(1) - 1, Len(Trace), Len(b.c06) + Len(b.c17) + Len(b.driver)>>)
    /\ PrintT(<<"BADK", "c06", b.c06>>) /\ PrintT(<<"BADK", "c17", b.c17>>)
    /\ PrintT(<<"BADK", "driver", b.driver>>) /\ PrintT(<<"BADK", "drift", b.drift>>)
    /\ TLCGet(1) - 1 = Len(Trace)
    /\ b.c06 = <<>> /\ b.c17 = <<>> /\ b.driver = <<>>
=============================================================================
