----------------------------- MODULE C04_Trace -----------------------------
(***************************************************************************)
(* C04: MSM4/MSM7 messages decode to exactly the encoded header and cell   *)
(* data.  Event: one call of the MSM4 or MSM7 decoder (directly or through *)
(* the handler's Analyse) on frame raw, with the projection of the decoded *)
(* structures:                                                             *)
(*   [raw, err, hdr, satmask, sigmask, cellmask, sats, sigs, ncell,        *)
(*    satcells, cells]                                                     *)
(* The oracle is MSM!DecodeMSM, which reads popcount(cell mask) cells and  *)
(* never looks at the padding; MSM!WellFormedMSM is the precondition.      *)
(***************************************************************************)
EXTENDS TraceBase, MSM

VARIABLES l, bad, nwf

\* (\E d \in {X} : ... binds d to the VALUE of X: inside an action TLC re-evaluates a LET-bound expression at every use)
Ok(e, wf) ==
    \/ ~wf                                    \* the property demands nothing
    \/ \E d \in {DecodeMSM(e.raw)} :
       /\ e.panic = "" /\ e.err = ""
       /\ e.hdr = d.hdr
       /\ e.satmask = SatMask(e.raw) /\ e.sigmask = SigMask(e.raw) /\ e.cellmask = d.cellmask
       /\ e.sats = d.sats /\ e.sigs = d.sigs
       /\ e.ncell = Len(d.cells)
       /\ e.satcells = d.satcells
       /\ e.cells = d.cells

Init == l = 1 /\ bad = <<>> /\ nwf = 0
Next == /\ l <= Len(Trace)
        /\ l' = l + 1
        /\ \E wf \in {WellFormedMSM(Trace[l].raw)} :
              /\ bad' = IF Ok(Trace[l], wf) \/ Len(bad) >= MaxBad THEN bad ELSE Append(bad, l)
              /\ nwf' = nwf + (IF wf THEN 1 ELSE 0)
Rec == Note(l, bad) /\ TLCSet(3, nwf)
VerdictC04 == PrintT(<<"WELLFORMED", TLCGet(3)>>) /\ Verdict
=============================================================================
