CONSTANT N = 1
CONSTANT Procs = {"a","b","c"}
CONSTANT MaxOps = 5
CONSTANT UseLock = TRUE
INIT Init
NEXT Next
INVARIANT SnapshotIsLastN
INVARIANT NeverMoreThanN
INVARIANT AtRestLastN
INVARIANT KeysAscending
INVARIANT LockExclusive
CHECK_DEADLOCK FALSE
