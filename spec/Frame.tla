------------------------------- MODULE Frame -------------------------------
(***************************************************************************)
(* RTCM3 transport frame with the real constants:                          *)
(*   0xD3 | 6 zero bits | 10-bit length L (1..1023) | L payload bytes |    *)
(*   CRC-24Q (polynomial 0x1864CFB, initial value 0) over all preceding    *)
(*   bytes, most significant byte first.                                   *)
(***************************************************************************)
EXTENDS Bits, Bitwise

SOF == 211
LeaderLen == 3
CRCLen == 3

\* one left shift of the 24-bit CRC register with conditional xor of the polynomial
CrcStep(c) == LET c2 == 2 * c IN IF c2 >= 16777216 THEN c2 ^^ 25578747 ELSE c2
CrcByte(c, b) == CrcStep(CrcStep(CrcStep(CrcStep(CrcStep(CrcStep(CrcStep(CrcStep(c ^^ (b * 65536)))))))))
CRC24Q(bytes) == FoldLeft(CrcByte, 0, bytes)

CrcBytes(c) == << c \div 65536, (c \div 256) % 256, c % 256 >>

ReservedOK(b1) == b1 \div 4 = 0
PayloadLen(b1, b2) == (b1 % 4) * 256 + b2

\* raw is exactly one valid frame
IsValidFrame(raw) ==
    /\ Len(raw) >= LeaderLen + 1 + CRCLen
    /\ raw[1] = SOF
    /\ ReservedOK(raw[2])
    /\ PayloadLen(raw[2], raw[3]) # 0
    /\ Len(raw) = PayloadLen(raw[2], raw[3]) + LeaderLen + CRCLen
    /\ SubSeq(raw, Len(raw) - 2, Len(raw)) = CrcBytes(CRC24Q(SubSeq(raw, 1, Len(raw) - 3)))

\* the first 12 payload bits (needs Len(raw) >= 5)
Type12(raw) == raw[4] * 16 + raw[5] \div 16

Payload(raw) == SubSeq(raw, LeaderLen + 1, Len(raw) - CRCLen)
=============================================================================
