----------------------------- MODULE TraceBase -----------------------------
(***************************************************************************)
(* Common part of the trace-validation specs (direction A, code -> spec).  *)
(* A trace is an ND-JSON file "trace.ndjson" in TLC's working directory,   *)
(* one event per line, recorded from the real Go code.  The trace specs    *)
(* are written as monitors: every event is consumed, and the index of each *)
(* event that the property's specification cannot explain is appended to   *)
(* `bad`.  The trace is accepted iff the whole trace was consumed and      *)
(* bad = <<>>.  (A blocking formulation would stop at the first known      *)
(* finding and leave the rest of the trace unexamined.)                    *)
(*                                                                         *)
(* The final values of l and bad are handed to the POSTCONDITION through   *)
(* TLC registers (needs -workers 1; the behaviour is a single chain).      *)
(***************************************************************************)
EXTENDS Integers, Sequences, TLC, Json

Trace == ndJsonDeserialize("trace.ndjson")

MaxBad == 500

Note(l, bad) == TLCSet(1, l) /\ TLCSet(2, bad)

Verdict ==
    /\ PrintT(<<"VERDICT", TLCGet(1) - 1, Len(Trace), Len(TLCGet(2))>>)
    /\ PrintT(<<"BAD", TLCGet(2)>>)
    /\ TLCGet(1) - 1 = Len(Trace)
    /\ TLCGet(2) = <<>>
=============================================================================
