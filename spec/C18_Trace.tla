----------------------------- MODULE C18_Trace -----------------------------
(***************************************************************************)
(* C18 (L0, LastN): trace validation of the real circular queue.           *)
(* Sequential cases (exhaustive Add/Get sequences, long runs):             *)
(*   [ev |-> "new", n]   [ev |-> "add", id, len]   [ev |-> "addn", from, to, len] *)
(*   [ev |-> "get", res, len]   [ev |-> "still", was, now]                 *)
(* Concurrent cases, events ordered by an atomic stamp:                    *)
(*   [ev |-> "cnew", n]                                                    *)
(*   [ev |-> "acall", id]  [ev |-> "alin", id, idx]  [ev |-> "aret", id]   *)
(*   [ev |-> "gcall", g]   [ev |-> "gret", g, res]                         *)
(* alin is recorded by the verif hook under the queue's write lock right   *)
(* after the insertion: it gives the addition order.  A snapshot must be   *)
(* the contiguous run LastMin(n, adds[1..k]) for a k that respects real    *)
(* time: all additions linearised by then (k <= number of alin seen), at   *)
(* least every addition that had returned and every k observed by a        *)
(* snapshot that had returned before this snapshot was called.             *)
(***************************************************************************)
EXTENDS TraceBase

LastMin(n, s) == IF Len(s) <= n THEN s ELSE SubSeq(s, Len(s) - n + 1, Len(s))

VARIABLES l, bad, n, adds, nret, gfloor, floor
\* adds: ids in addition order; nret: largest index of an addition that has returned;
\* gfloor: largest k observed by a returned snapshot; floor[g]: lower bound for snapshot g in progress

Init == l = 1 /\ bad = <<>> /\ n = 1 /\ adds = <<>> /\ nret = 0 /\ gfloor = 0 /\ floor = [g \in {} |-> 0]

Flag(ok) == bad' = IF ok \/ Len(bad) >= MaxBad THEN bad ELSE Append(bad, l)
IdxOf(id) == CHOOSE i \in 1..Len(adds) : adds[i] = id
Known(id) == \E i \in 1..Len(adds) : adds[i] = id
Max(a, b) == IF a > b THEN a ELSE b

Next == /\ l <= Len(Trace)
        /\ l' = l + 1
        /\ LET e == Trace[l] IN
           CASE e.ev \in {"new", "cnew"} ->
                  /\ n' = e.n /\ adds' = <<>> /\ nret' = 0 /\ gfloor' = 0 /\ floor' = [g \in {} |-> 0] /\ UNCHANGED bad
             [] e.ev = "add" ->
                  /\ adds' = Append(adds, e.id)
                  /\ Flag(e.len = (IF Len(adds) + 1 <= n THEN Len(adds) + 1 ELSE n))
                  /\ UNCHANGED <<n, nret, gfloor, floor>>
             [] e.ev = "addn" ->          \* a batch of additions with consecutive ids (long runs)
                  /\ adds' = LastMin(n, adds \o [i \in 1..(e.to - e.from + 1) |-> e.from + i - 1])
                  /\ Flag(e.len <= n)
                  /\ UNCHANGED <<n, nret, gfloor, floor>>
             [] e.ev = "get" ->
                  /\ Flag(e.res = LastMin(n, adds) /\ Len(e.res) <= n /\ e.len = Len(e.res))
                  /\ UNCHANGED <<n, adds, nret, gfloor, floor>>
             [] e.ev = "stuck" ->         \* adders and snapshot readers had not all returned after 20 s: the queue has locked up
                  /\ Flag(FALSE)
                  /\ UNCHANGED <<n, adds, nret, gfloor, floor>>
             [] e.ev = "still" ->         \* an earlier snapshot read again after later additions: it has not changed
                  /\ Flag(e.now = e.was)
                  /\ UNCHANGED <<n, adds, nret, gfloor, floor>>
             [] e.ev = "acall" -> UNCHANGED <<bad, n, adds, nret, gfloor, floor>>
             [] e.ev = "alin" ->
                  /\ adds' = Append(adds, e.id)
                  /\ Flag(e.idx = Len(adds) + 1)            \* NextIndex counts the additions, no gaps
                  /\ UNCHANGED <<n, nret, gfloor, floor>>
             [] e.ev = "aret" ->
                  /\ Flag(Known(e.id))
                  /\ nret' = IF Known(e.id) THEN Max(nret, IdxOf(e.id)) ELSE nret
                  /\ UNCHANGED <<n, adds, gfloor, floor>>
             [] e.ev = "gcall" ->
                  /\ floor' = [g \in DOMAIN floor \cup {e.g} |-> IF g = e.g THEN Max(nret, gfloor) ELSE floor[g]]
                  /\ UNCHANGED <<bad, n, adds, nret, gfloor>>
             [] e.ev = "gret" ->
                  LET k == IF e.res = <<>> THEN 0
                           ELSE IF Known(e.res[Len(e.res)]) THEN IdxOf(e.res[Len(e.res)]) ELSE -1
                      ok == /\ k >= 0
                            /\ e.res = LastMin(n, SubSeq(adds, 1, k))
                            /\ k >= floor[e.g]
                  IN /\ Flag(ok)
                     /\ gfloor' = IF ok THEN Max(gfloor, k) ELSE gfloor
                     /\ UNCHANGED <<n, adds, nret, floor>>
Rec == Note(l, bad)
=============================================================================
