CONSTANT N = 8
INIT Init
NEXT Next
INVARIANT C01
INVARIANT C02
INVARIANT C02ind
INVARIANT C03
INVARIANT C12
INVARIANT PBSmall
CHECK_DEADLOCK FALSE
