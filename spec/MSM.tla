-------------------------------- MODULE MSM --------------------------------
(***************************************************************************)
(* Format definition of RTCM3 Multiple Signal Messages type 4 and 7        *)
(* (1074..1137), as an executable specification: header, the three masks,  *)
(* satellite data and signal data (both field-major), padding.             *)
(* Bit positions are relative to the start of the FRAME (the payload       *)
(* starts at bit 24); raw is the complete frame including leader and CRC.  *)
(***************************************************************************)
EXTENDS Frame, MsgTypes

P0 == 24                      \* first payload bit

\* ---- fixed part of the header: name, width; in transmission order ----
HdrFields == << <<"type", 12>>, <<"station", 12>>, <<"ts", 30>>, <<"mm", 1>>, <<"iods", 3>>,
                <<"sess", 7>>, <<"clk", 2>>, <<"extclk", 2>>, <<"smooth", 1>>, <<"smint", 3>> >>
FixedHdrBits == 73
SatMaskPos == P0 + FixedHdrBits          \* 64 bits
SigMaskPos == SatMaskPos + 64            \* 32 bits
CellMaskPos == SigMaskPos + 32           \* nSat * nSig bits
MinHdrBits == FixedHdrBits + 64 + 32     \* 169

IsMSM7(t) == t \in MSM7Types

\* per-satellite and per-cell field tables: <<name, width, signed>>
SatFields(t) == IF IsMSM7(t)
                THEN << <<"whole", 8, FALSE>>, <<"ext", 4, FALSE>>, <<"frac", 10, FALSE>>, <<"rate", 14, TRUE>> >>
                ELSE << <<"whole", 8, FALSE>>, <<"frac", 10, FALSE>> >>
SigFields(t) == IF IsMSM7(t)
                THEN << <<"fine", 20, TRUE>>, <<"phase", 24, TRUE>>, <<"lock", 10, FALSE>>,
                        <<"half", 1, FALSE>>, <<"cnr", 10, FALSE>>, <<"rate", 15, TRUE>> >>
                ELSE << <<"fine", 15, TRUE>>, <<"phase", 22, TRUE>>, <<"lock", 4, FALSE>>,
                        <<"half", 1, FALSE>>, <<"cnr", 6, FALSE>> >>

SumW(fields) == FoldLeft(LAMBDA a, f : a + f[2], 0, fields)
SatCellBits(t) == SumW(SatFields(t))     \* 18 / 36
SigCellBits(t) == SumW(SigFields(t))     \* 48 / 80

\* ---- layout arithmetic as a function of the mask sizes ----
HdrBits(nSat, nSig) == MinHdrBits + nSat * nSig
SatDataPos(nSat, nSig) == P0 + HdrBits(nSat, nSig)
SigDataPos(t, nSat, nSig) == SatDataPos(nSat, nSig) + nSat * SatCellBits(t)
EndOfData(t, nSat, nSig, nCell) == SigDataPos(t, nSat, nSig) + nCell * SigCellBits(t)
\* payload bits needed / payload bytes needed
NeedBits(t, nSat, nSig, nCell) == EndOfData(t, nSat, nSig, nCell) - P0
CeilDiv(a, b) == (a + b - 1) \div b
NeedBytes(t, nSat, nSig, nCell) == CeilDiv(NeedBits(t, nSat, nSig, nCell), 8)

\* ---- reading a frame ----
TypeOfRaw(raw) == U(raw, P0, 12)
SatMask(raw) == FieldBits(raw, SatMaskPos, 64)
SigMask(raw) == FieldBits(raw, SigMaskPos, 32)
Sats(raw) == SetBits(SatMask(raw))        \* satellite ids, ascending
Sigs(raw) == SetBits(SigMask(raw))        \* signal ids, ascending
NSat(raw) == PopCount(SatMask(raw))
NSig(raw) == PopCount(SigMask(raw))
CellMask(raw) == FieldBits(raw, CellMaskPos, NSat(raw) * NSig(raw))
NCell(raw) == PopCount(CellMask(raw))
PayloadBits(raw) == 8 * (Len(raw) - 6)

\* fixed header fields as a record of numbers
Hdr(raw) ==
  [ type |-> U(raw, P0, 12), station |-> U(raw, P0 + 12, 12), ts |-> U(raw, P0 + 24, 30),
    mm |-> U(raw, P0 + 54, 1), iods |-> U(raw, P0 + 55, 3), sess |-> U(raw, P0 + 58, 7),
    clk |-> U(raw, P0 + 65, 2), extclk |-> U(raw, P0 + 67, 2), smooth |-> U(raw, P0 + 69, 1),
    smint |-> U(raw, P0 + 70, 3) ]

\* well-formed MSM4/MSM7 frame (the precondition of C04)
WellFormedMSM(raw) ==
  /\ IsValidFrame(raw)
  /\ PayloadBits(raw) >= MinHdrBits
  /\ TypeOfRaw(raw) \in MSMTypes
  /\ NSat(raw) * NSig(raw) <= 64
  /\ PayloadBits(raw) >= HdrBits(NSat(raw), NSig(raw))
  /\ LET t == TypeOfRaw(raw)
         endd == EndOfData(t, NSat(raw), NSig(raw), NCell(raw))
     IN /\ endd <= P0 + PayloadBits(raw)
        /\ AllZero(FieldBits(raw, endd, P0 + PayloadBits(raw) - endd))      \* zero padding only
  /\ (NCell(raw) = 0 => Hdr(raw).mm = 0)    \* a continued message carries at least one cell

\* value of field number fi (1-based in table `fields`) of item number k (1-based) in a
\* field-major array of n items starting at bit position base
FieldPos(fields, base, n, fi, k) ==
  base + n * SumW(SubSeq(fields, 1, fi - 1)) + (k - 1) * fields[fi][2]
FieldVal(raw, fields, base, n, fi, k) ==
  IF fields[fi][3] THEN S(raw, FieldPos(fields, base, n, fi, k), fields[fi][2])
                   ELSE U(raw, FieldPos(fields, base, n, fi, k), fields[fi][2])

\* satellite cell k (1..NSat) and signal cell c (1..NCell) as sequences of field values (table order)
SatCell(raw, k) ==
  LET t == TypeOfRaw(raw) f == SatFields(t) IN
  [fi \in 1..Len(f) |-> FieldVal(raw, f, SatDataPos(NSat(raw), NSig(raw)), NSat(raw), fi, k)]
SigCell(raw, c) ==
  LET t == TypeOfRaw(raw) f == SigFields(t) IN
  [fi \in 1..Len(f) |-> FieldVal(raw, f, SigDataPos(t, NSat(raw), NSig(raw)), NCell(raw), fi, c)]

\* the cells in transmission order: <<satellite index, signal index>> for every 1 bit of the
\* cell mask, satellite-major
CellIndex(raw) ==
  LET ns == NSig(raw) cm == CellMask(raw) IN
  [j \in 1..NCell(raw) |->
     LET b == SetBits(cm)[j] IN << ((b - 1) \div ns) + 1, ((b - 1) % ns) + 1 >>]

\* full decode: what C04 requires the library to reproduce.  (Written with explicit parameters and folds so that
\* the masks are read once per message: TLC evaluates function constructors lazily, element by element.)
DecodeWith(raw, t, sats, sigs, cm) ==
  LET nsat == Len(sats)
      nsig == Len(sigs)
      setb == SetBits(cm)
      nc == Len(setb)
      satpos == SatDataPos(nsat, nsig)
      sigpos == SigDataPos(t, nsat, nsig)
      sf == SatFields(t)
      gf == SigFields(t)
  IN
  [ hdr  |-> Hdr(raw),
    sats |-> sats,
    sigs |-> sigs,
    cellmask |-> cm,
    satcells |-> FoldLeft(LAMBDA acc, k : Append(acc, FoldLeft(LAMBDA a2, fi : Append(a2, FieldVal(raw, sf, satpos, nsat, fi, k)),
                                                                 <<>>, [fi \in 1..Len(sf) |-> fi])),
                          <<>>, [k \in 1..nsat |-> k]),
    \* one entry per cell: <<satellite id, signal id, field values...>>
    cells |-> FoldLeft(LAMBDA acc, j :
                         Append(acc, << sats[((setb[j] - 1) \div nsig) + 1], sigs[((setb[j] - 1) % nsig) + 1] >> \o
                                     FoldLeft(LAMBDA a2, fi : Append(a2, FieldVal(raw, gf, sigpos, nc, fi, j)),
                                              <<>>, [fi \in 1..Len(gf) |-> fi])),
                       <<>>, [j \in 1..nc |-> j]) ]

DecodeMSM(raw) ==
  DecodeWith(raw, TypeOfRaw(raw), Sats(raw), Sigs(raw), CellMask(raw))
=============================================================================
