CONSTANT CS = {"gps","glonass"}
CONSTANT Horizon = 100
CONSTANT FirstNotBeforeT = TRUE
CONSTANT SwLose = TRUE
CONSTANT SwGal = FALSE
CONSTANT SwInit = FALSE
INIT Init
NEXT Next
INVARIANT Correct
CHECK_DEADLOCK FALSE
