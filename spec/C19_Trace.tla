----------------------------- MODULE C19_Trace -----------------------------
(***************************************************************************)
(* C19 (L0): one TCP loopback session through the built proxy binary.      *)
(*   [c2s, s_got, s2c, c_got, alive, stalled, report_ok, report_msgs,      *)
(*    slot_client, slot_server, slot_messages]                             *)
(* c2s / s2c: bytes sent by the client / the upstream server; s_got /      *)
(* c_got: bytes received at the other end at quiescence; report_msgs: the  *)
(* raw bytes of the messages listed on /status/report (read back from the  *)
(* hex dumps); slot_*: the distinct code points found in the three         *)
(* traffic-derived slots of the report body.                               *)
(* Expected messages: FramerCore (real CRC-24Q) on c2s, without end of     *)
(* input (the connection closing does not close the parser's channel).     *)
(***************************************************************************)
EXTENDS TraceBase, Frame

RealLeaderOK(f) == ReservedOK(f[2]) /\ PayloadLen(f[2], f[3]) # 0
RealFrameLen(f) == PayloadLen(f[2], f[3]) + LeaderLen + CRCLen
RealCRCOK(f) == SubSeq(f, Len(f) - 2, Len(f)) = CrcBytes(CRC24Q(SubSeq(f, 1, Len(f) - 3)))
R == INSTANCE FramerCore WITH SOFc <- SOF, LeaderLen <- 3, ProbeLen <- 5,
        LeaderOK <- RealLeaderOK, FrameLen <- RealFrameLen, CRCOK <- RealCRCOK, TypeOf <- Type12

\* messages emitted while input is still possible (no end-of-input step)
MessagesSoFar(in) ==
  FoldLeft(LAMBDA a, k : IF a[1].pb = <<>> /\ a[2] >= Len(in) THEN a ELSE R!StepIdx(a[1], in, a[2]),
           << R!St0, 0 >>, [k \in 1..(2 * Len(in) + 6) |-> k])[1].out

LastMin(n, s) == IF Len(s) <= n THEN s ELSE SubSeq(s, Len(s) - n + 1, Len(s))

\* s occurs in t as a contiguous run
IsRun(s, t) == s = <<>> \/ \E i \in 0..(Len(t) - Len(s)) : SubSeq(t, i + 1, i + Len(s)) = s

\* s is the end of t (the report's "last client / server buffer" panels at quiescence; empty when nothing was dumped)
EndsWith(t, s) == Len(s) <= Len(t) /\ s = SubSeq(t, Len(t) - Len(s) + 1, Len(t))

VARIABLES l, bad, drift

Clean(chars) == \A i \in 1..Len(chars) : chars[i] # 60 /\ chars[i] # 62

Ok(e, raws) ==
    /\ e.alive /\ ~e.stalled
    /\ e.s_got = e.c2s /\ e.c_got = e.s2c                     \* relayed byte for byte, both ways
    /\ e.report_ok
    /\ Len(e.report_msgs) <= 20 /\ IsRun(e.report_msgs, raws)  \* only relayed messages, in order
    /\ Clean(e.slot_client) /\ Clean(e.slot_server) /\ Clean(e.slot_messages)
    /\ EndsWith(e.c2s, e.dump_client) /\ EndsWith(e.s2c, e.dump_server)   \* the "last buffer" panels show relayed bytes only: the end of each stream

\* L1: at quiescence the report shows exactly the last 20
Exact(e, raws) == e.report_msgs = LastMin(20, raws)

Init == l = 1 /\ bad = <<>> /\ drift = <<>>
Next == /\ l <= Len(Trace)
        /\ l' = l + 1
        /\ LET e == Trace[l]
               m == MessagesSoFar(e.c2s)
               raws == FoldLeft(LAMBDA acc, x : Append(acc, x.raw), <<>>, m)   \* a concrete sequence (a function constructor is re-evaluated lazily)
           IN /\ bad' = IF Ok(e, raws) \/ Len(bad) >= MaxBad THEN bad ELSE Append(bad, l)
              /\ drift' = IF ~e.report_ok \/ Exact(e, raws) THEN drift ELSE Append(drift, l)
Rec == Note(l, bad) /\ TLCSet(3, drift)
VerdictC19 == PrintT(<<"BADK", "drift", TLCGet(3)>>) /\ Verdict
=============================================================================
