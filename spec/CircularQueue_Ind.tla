------------------------- MODULE CircularQueue_Ind -------------------------
(***************************************************************************)
(* Unbounded argument for the recent-message queue (C18), for Apalache:    *)
(* any capacity N >= 1, any number of additions and snapshots, three       *)
(* processes.  The map is abstracted to the interval of keys it holds,     *)
(* lo .. nextIdx-1 (CircularQueue!KeysAscending and the fact that eviction *)
(* removes the smallest keys make that exact); the message with key k is   *)
(* the (k+1)-th one added, so a snapshot is the interval of positions in   *)
(* the ghost sequence `added`, of which only the length cnt is kept.       *)
(*   IndInit /\ Next => IndInv'    and    IndInv => the C18 statements     *)
(* The actions are those of CircularQueue.tla one for one (same pc labels) *)
(* minus the operation budget; CircularQueue_IndEq binds the two with TLC. *)
(***************************************************************************)
EXTENDS Integers, FiniteSets

CONSTANTS
    \* @type: Int;
    N,
    \* @type: Set(Str);
    Procs,
    \* @type: Bool;
    EvictLate   \* negative control: evict only when the map holds more than N (off by one)

VARIABLES
    \* @type: Int;
    lo,        \* smallest key held (= nextIdx when the map is empty)
    \* @type: Int;
    nextIdx,
    \* @type: Int;
    cnt,       \* ghost: number of messages whose insertion has happened
    \* @type: Str;
    writer,
    \* @type: Set(Str);
    readers,
    \* @type: Str -> Str;
    pc,
    \* @type: Str -> Int;
    resLo,     \* per process, last snapshot: positions resLo .. resHi-1 of `added` were returned
    \* @type: Str -> Int;
    resHi,
    \* @type: Str -> Int;
    wantLo,    \* ... and positions wantLo .. wantHi-1 were the most recent min(N, cnt) at that moment
    \* @type: Str -> Int;
    wantHi

ivars == <<lo, nextIdx, cnt, writer, readers, pc, resLo, resHi, wantLo, wantHi>>

ConstInit     == N \in Int /\ N >= 1 /\ Procs = {"a", "b", "c"} /\ EvictLate = FALSE
ConstInitLate == N \in Int /\ N >= 1 /\ Procs = {"a", "b", "c"} /\ EvictLate = TRUE

Labels == {"idle", "add.lock", "add.evict", "add.insert", "add.unlock", "get.rlock", "get.copy", "get.runlock"}
Min(a, b) == IF a <= b THEN a ELSE b
Max(a, b) == IF a >= b THEN a ELSE b
held == nextIdx - lo

Init == /\ lo = 0 /\ nextIdx = 0 /\ cnt = 0 /\ writer = "none" /\ readers = {}
         /\ pc = [p \in Procs |-> "idle"]
         /\ resLo = [p \in Procs |-> 0] /\ resHi = [p \in Procs |-> 0]
         /\ wantLo = [p \in Procs |-> 0] /\ wantHi = [p \in Procs |-> 0]

IStartAdd(p) == /\ pc[p] = "idle" /\ pc' = [pc EXCEPT ![p] = "add.lock"]
                /\ UNCHANGED <<lo, nextIdx, cnt, writer, readers, resLo, resHi, wantLo, wantHi>>
IAddLock(p) == /\ pc[p] = "add.lock" /\ writer = "none" /\ readers = {}
               /\ writer' = p /\ pc' = [pc EXCEPT ![p] = "add.evict"]
               /\ UNCHANGED <<lo, nextIdx, cnt, readers, resLo, resHi, wantLo, wantHi>>
\* `for key in ascending keys: if len(Items) >= MaxItems then delete(key)`: the smallest keys go until N-1 are left
IAddEvict(p) == /\ pc[p] = "add.evict"
                /\ lo' = IF (IF EvictLate THEN held > N ELSE held >= N) THEN nextIdx - (N - 1) ELSE lo
                /\ pc' = [pc EXCEPT ![p] = "add.insert"]
                /\ UNCHANGED <<nextIdx, cnt, writer, readers, resLo, resHi, wantLo, wantHi>>
IAddInsert(p) == /\ pc[p] = "add.insert"
                 /\ nextIdx' = nextIdx + 1 /\ cnt' = cnt + 1
                 /\ pc' = [pc EXCEPT ![p] = "add.unlock"]
                 /\ UNCHANGED <<lo, writer, readers, resLo, resHi, wantLo, wantHi>>
IAddUnlock(p) == /\ pc[p] = "add.unlock"
                 /\ writer' = "none" /\ pc' = [pc EXCEPT ![p] = "idle"]
                 /\ UNCHANGED <<lo, nextIdx, cnt, readers, resLo, resHi, wantLo, wantHi>>
IStartGet(p) == /\ pc[p] = "idle" /\ pc' = [pc EXCEPT ![p] = "get.rlock"]
                /\ UNCHANGED <<lo, nextIdx, cnt, writer, readers, resLo, resHi, wantLo, wantHi>>
IGetRLock(p) == /\ pc[p] = "get.rlock" /\ writer = "none"
                /\ readers' = readers \cup {p} /\ pc' = [pc EXCEPT ![p] = "get.copy"]
                /\ UNCHANGED <<lo, nextIdx, cnt, writer, resLo, resHi, wantLo, wantHi>>
IGetCopy(p) == /\ pc[p] = "get.copy"
               /\ resLo' = [resLo EXCEPT ![p] = lo] /\ resHi' = [resHi EXCEPT ![p] = nextIdx]
               /\ wantLo' = [wantLo EXCEPT ![p] = Max(0, cnt - N)] /\ wantHi' = [wantHi EXCEPT ![p] = cnt]
               /\ pc' = [pc EXCEPT ![p] = "get.runlock"]
               /\ UNCHANGED <<lo, nextIdx, cnt, writer, readers>>
IGetRUnlock(p) == /\ pc[p] = "get.runlock"
                  /\ readers' = readers \ {p} /\ pc' = [pc EXCEPT ![p] = "idle"]
                  /\ UNCHANGED <<lo, nextIdx, cnt, writer, resLo, resHi, wantLo, wantHi>>

Next == \E p \in Procs : IStartAdd(p) \/ IAddLock(p) \/ IAddEvict(p) \/ IAddInsert(p) \/ IAddUnlock(p)
                          \/ IStartGet(p) \/ IGetRLock(p) \/ IGetCopy(p) \/ IGetRUnlock(p)

\* the C18 statements in this vocabulary
ISnapshotIsLastN == \A p \in Procs : resLo[p] = wantLo[p] /\ resHi[p] = wantHi[p]
INeverMoreThanN  == held <= N
IAtRestLastN     == (\A p \in Procs : pc[p] = "idle") => lo = Max(0, cnt - N) /\ nextIdx = cnt

\* the inductive invariant
InAdd(p) == pc[p] \in {"add.evict", "add.insert", "add.unlock"}
InGet(p) == pc[p] \in {"get.copy", "get.runlock"}
IndInv ==
    /\ pc \in [Procs -> Labels] /\ writer \in Procs \cup {"none"} /\ readers \subseteq Procs
    /\ resLo \in [Procs -> Int] /\ resHi \in [Procs -> Int] /\ wantLo \in [Procs -> Int] /\ wantHi \in [Procs -> Int]
    /\ nextIdx = cnt /\ 0 <= lo /\ lo <= nextIdx
    \* lock discipline
    /\ (writer # "none" => readers = {})
    /\ \A p \in Procs : (InAdd(p) <=> writer = p) /\ (InGet(p) <=> p \in readers)
    \* size, by phase of the one writer
    /\ held = (IF writer # "none" /\ pc[writer] = "add.insert" THEN Min(N - 1, cnt) ELSE Min(N, cnt))
    /\ ISnapshotIsLastN

IndInit == /\ lo \in Int /\ nextIdx \in Int /\ cnt \in Int
           /\ writer \in Procs \cup {"none"} /\ readers \in SUBSET Procs
           /\ pc \in [Procs -> Labels]
           /\ resLo \in [Procs -> Int] /\ resHi \in [Procs -> Int] /\ wantLo \in [Procs -> Int] /\ wantHi \in [Procs -> Int]
           /\ IndInv

\* IndInv => the C18 statements (checked as --inv=Implied at length 0 from IndInit)
Implied == INeverMoreThanN /\ IAtRestLastN /\ ISnapshotIsLastN
=============================================================================
