----------------------------- MODULE ProxyMulti -----------------------------
(***************************************************************************)
(* L1: the proxy with SEVERAL client connections (apps/proxy/tcpprox.go:   *)
(* StartClientListener accepts in a loop and runs handleMessages in a      *)
(* goroutine per connection).  Every connection has its own relay loop and *)
(* its own upstream connection, but all of them tee their bytes into the   *)
(* ONE byteChan / RTCM parser / recent-message queue that `start` creates. *)
(* Client -> server direction only (the other one does not touch the       *)
(* parser; Proxy.tla has it).  Bytes are identities <<connection, index>>, *)
(* messages are "every MsgLen bytes the parser has received".              *)
(*   Concurrent = FALSE  a connection is accepted only after the previous  *)
(*                       client has sent everything and gone               *)
(*   Concurrent = TRUE   connections overlap                               *)
(* What holds in every configuration: each connection is relayed exactly   *)
(* and completely (RelayPrefix, RelayCompletes), and the report only shows *)
(* bytes that a client has sent (ReportOnlySentBytes).                     *)
(* What does NOT hold as soon as connections overlap - or a client leaves  *)
(* in the middle of a message: ReportContiguous, "every reported message   *)
(* is a contiguous piece of ONE client's stream".  The parser then frames  *)
(* a splice of two streams.  C19 is stated for one session, so this is a   *)
(* hazard of the design and not a violation of a listed property; the      *)
(* concurrent-clients sessions of the C19 check show it on the real proxy  *)
(* (as a note) while judging only the relay and the HTML safety.           *)
(***************************************************************************)
EXTENDS Integers, Sequences, FiniteSets

CONSTANTS K, NC, MaxChunk, MsgLen, QN, Concurrent

Conn == 1..K
VARIABLES pc,      \* pc[c] in {"idle", "read", "tee", "done"}
          cSent, cBuf, cTee, sGot,   \* per connection: bytes read from the client, chunk in hand, teed so far, written upstream
          part,    \* parser: bytes of the message being assembled (byte identities)
          pend,    \* parser: a complete message waiting for the updater (or <<>>)
          queue, report
vars == <<pc, cSent, cBuf, cTee, sGot, part, pend, queue, report>>

LastMin(n, s) == IF Len(s) <= n THEN s ELSE SubSeq(s, Len(s) - n + 1, Len(s))

Init == /\ pc = [c \in Conn |-> "idle"] /\ cSent = [c \in Conn |-> 0] /\ cBuf = [c \in Conn |-> 0]
        /\ cTee = [c \in Conn |-> 0] /\ sGot = [c \in Conn |-> 0]
        /\ part = <<>> /\ pend = <<>> /\ queue = <<>> /\ report = <<>>

Accept(c) == /\ pc[c] = "idle"
             /\ \A d \in Conn : d < c => pc[d] # "idle"                    \* accepted in order
             /\ Concurrent \/ \A d \in Conn : d < c => pc[d] = "done"
             /\ pc' = [pc EXCEPT ![c] = "read"]
             /\ UNCHANGED <<cSent, cBuf, cTee, sGot, part, pend, queue, report>>
CRead(c) == /\ pc[c] = "read" /\ cSent[c] < NC
            /\ \E k \in 1..MaxChunk : /\ k <= NC - cSent[c]
                                      /\ cBuf' = [cBuf EXCEPT ![c] = k] /\ cSent' = [cSent EXCEPT ![c] = @ + k]
            /\ cTee' = [cTee EXCEPT ![c] = 0] /\ pc' = [pc EXCEPT ![c] = "tee"]
            /\ UNCHANGED <<sGot, part, pend, queue, report>>
\* rendezvous with the parser on the unbuffered byteChan: whichever connection gets there first
CTee(c) == /\ pc[c] = "tee" /\ cTee[c] < cBuf[c] /\ pend = <<>>
           /\ LET b == <<c, cSent[c] - cBuf[c] + cTee[c] + 1>>
                  p == Append(part, b)
              IN IF Len(p) = MsgLen THEN part' = <<>> /\ pend' = p ELSE part' = p /\ pend' = pend
           /\ cTee' = [cTee EXCEPT ![c] = @ + 1]
           /\ UNCHANGED <<pc, cSent, cBuf, sGot, queue, report>>
CWrite(c) == /\ pc[c] = "tee" /\ cTee[c] = cBuf[c]
             /\ sGot' = [sGot EXCEPT ![c] = @ + cBuf[c]] /\ pc' = [pc EXCEPT ![c] = "read"]
             /\ UNCHANGED <<cSent, cBuf, cTee, part, pend, queue, report>>
CClose(c) == /\ pc[c] = "read" /\ cSent[c] = NC /\ pc' = [pc EXCEPT ![c] = "done"]
             /\ UNCHANGED <<cSent, cBuf, cTee, sGot, part, pend, queue, report>>
PSend == /\ pend # <<>> /\ queue' = LastMin(QN, Append(queue, pend)) /\ pend' = <<>>
         /\ UNCHANGED <<pc, cSent, cBuf, cTee, sGot, part, report>>
Status == /\ report' = queue /\ UNCHANGED <<pc, cSent, cBuf, cTee, sGot, part, pend, queue>>

Next == (\E c \in Conn : Accept(c) \/ CRead(c) \/ CTee(c) \/ CWrite(c) \/ CClose(c)) \/ PSend \/ Status
Fair == /\ \A c \in Conn : WF_vars(Accept(c)) /\ WF_vars(CRead(c)) /\ WF_vars(CTee(c)) /\ WF_vars(CWrite(c)) /\ WF_vars(CClose(c))
        /\ WF_vars(PSend)
Spec == Init /\ [][Next]_vars /\ Fair

TypeOK == /\ \A c \in Conn : pc[c] \in {"idle", "read", "tee", "done"} /\ cSent[c] \in 0..NC /\ sGot[c] \in 0..NC
          /\ Len(part) < MsgLen /\ Len(queue) <= QN
RelayPrefix == \A c \in Conn : sGot[c] <= cSent[c]
RelayCompletes == <>(\A c \in Conn : sGot[c] = NC /\ pc[c] = "done")
ReportOnlySentBytes == \A i \in 1..Len(report) : \A j \in 1..Len(report[i]) : report[i][j][2] <= cSent[report[i][j][1]]
ReportContiguous == \A i \in 1..Len(report) : \A j \in 1..Len(report[i]) :
                       report[i][j][1] = report[i][1][1] /\ report[i][j][2] = report[i][1][2] + j - 1
=============================================================================
