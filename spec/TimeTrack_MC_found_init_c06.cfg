CONSTANT CS = {"gps","beidou"}
CONSTANT Horizon = 100
CONSTANT FirstNotBeforeT = TRUE
CONSTANT SwLose = FALSE
CONSTANT SwGal = FALSE
CONSTANT SwInit = TRUE
INIT Init
NEXT Next
INVARIANT Correct
CHECK_DEADLOCK FALSE
