CONSTANT NMsg = 4
CONSTANT Cap = 0
CONSTANT WaitForWriters = FALSE
SPECIFICATION Spec
INVARIANT AllWrittenAtReturn
INVARIANT WrittenPrefix
PROPERTY Returns
CHECK_DEADLOCK FALSE
