CONSTANT NMsg = 4
CONSTANT Cap = 0
CONSTANT WaitForWriters = FALSE
CONSTANT WriteFailsAt = 0
SPECIFICATION Spec
INVARIANT AllWrittenAtReturn
INVARIANT WrittenPrefix
PROPERTY Returns
CHECK_DEADLOCK FALSE
