---------------------------- MODULE Framer_Emit ----------------------------
(***************************************************************************)
(* Computes, with FramerCore on REAL bytes, the framer's emission schedule *)
(* for each input of trace.ndjson (one [in |-> bytes] per line): the       *)
(* number of bytes taken from the channel when each message is sent        *)
(* (Len(in) + k = sent after the k-th read of the closed channel), the     *)
(* count at which the output is closed (closeat), and the type and length  *)
(* of each message.  Used as the constants of Pipeline.                    *)
(***************************************************************************)
EXTENDS TraceBase, Frame

RealLeaderOK(f) == ReservedOK(f[2]) /\ PayloadLen(f[2], f[3]) # 0
RealFrameLen(f) == PayloadLen(f[2], f[3]) + LeaderLen + CRCLen
RealCRCOK(f) == SubSeq(f, Len(f) - 2, Len(f)) = CrcBytes(CRC24Q(SubSeq(f, 1, Len(f) - 3)))
R == INSTANCE FramerCore WITH SOFc <- SOF, LeaderLen <- 3, ProbeLen <- 5,
        LeaderOK <- RealLeaderOK, FrameLen <- RealFrameLen, CRCOK <- RealCRCOK, TypeOf <- Type12

Schedule(in) ==
  LET N == Len(in)
      \* accumulator: <<framer state, rest of input, emission schedule, reads of the closed channel so far>>
      r == FoldLeft(LAMBDA a, k :
                      IF a[1].done THEN a
                      ELSE LET atEOF == a[1].pb = <<>> /\ a[2] = <<>>
                               eofs == IF atEOF THEN a[4] + 1 ELSE a[4]
                               s == R!StepOn(a[1], a[2])
                           IN << s[1], s[2],
                                 IF Len(s[1].out) > Len(a[1].out)
                                 THEN Append(a[3], IF atEOF THEN N + eofs ELSE N - Len(s[2])) ELSE a[3],
                                 eofs >>,
                    << R!St0, in, <<>>, 0 >>, [k \in 1..(2 * N + 6) |-> k])
  IN [emit |-> r[3], closeat |-> N + r[4],
      types |-> [i \in 1..Len(r[1].out) |-> r[1].out[i].type],
      lens |-> [i \in 1..Len(r[1].out) |-> Len(r[1].out[i].raw)], done |-> r[1].done]

ASSUME \A i \in 1..Len(Trace) : PrintT(<<"SCHED", i, ToJson(Schedule(Trace[i].in))>>)

VARIABLE x
Init == x = 0
Next == UNCHANGED x
=============================================================================
