----------------------------- MODULE C16_Trace -----------------------------
(***************************************************************************)
(* C16 (L0): one complete run of the built rtcmlogger binary over pipes:   *)
(*   [in_len, in_sha, out_len, out_sha, file_len, file_sha, has_file, ret] *)
(* stdout and the day's record file must equal stdin (compared by length   *)
(* and SHA-1, and byte by byte when `in` / `out` / `file` are included for *)
(* small inputs).  Runs with pause = TRUE replay the Logger.tla            *)
(* counterexample: the recorder is held before its write (verif hook       *)
(* rec.write) while the copy loop reaches end of input and main exits.     *)
(***************************************************************************)
EXTENDS TraceBase

VARIABLES l, bad

Ok(e) == /\ e.ret = ""
         /\ e.pre_kept                      \* a record begun earlier in the day is continued, never truncated (file_* describe what follows it)
         /\ e.out_len = e.in_len /\ e.out_sha = e.in_sha
         /\ (e.in_len + e.pre_len > 0 => e.has_file)
         /\ e.file_len = e.in_len /\ (e.has_file => e.file_sha = e.in_sha)
         /\ (e.small => e.out = e.in /\ (e.has_file => e.file = e.in))
         /\ (e.live => e.live_complete)     \* not delayed indefinitely: a burst is passed through while stdin is still open

Init == l = 1 /\ bad = <<>>
Next == /\ l <= Len(Trace)
        /\ l' = l + 1
        /\ bad' = IF Ok(Trace[l]) \/ Len(bad) >= MaxBad THEN bad ELSE Append(bad, l)
Rec == Note(l, bad)
=============================================================================
