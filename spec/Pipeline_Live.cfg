SPECIFICATION Spec
PROPERTY Terminates
PROPERTY AllReceived
CHECK_DEADLOCK FALSE
