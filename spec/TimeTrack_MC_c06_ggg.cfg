CONSTANT CS = {"gps","galileo","glonass"}
CONSTANT Horizon = 64
CONSTANT FirstNotBeforeT = TRUE
CONSTANT SwLose = FALSE
CONSTANT SwGal = FALSE
CONSTANT SwInit = FALSE
INIT Init
NEXT Next
INVARIANT Correct
CHECK_DEADLOCK FALSE
