------------------------------ MODULE Base1005 ------------------------------
(***************************************************************************)
(* Format definition of RTCM3 messages 1005 / 1006 (stationary reference   *)
(* station antenna reference point, 1006 with antenna height) and of the   *)
(* four-decimal display of their 0.0001 m fixed-point values.              *)
(* Bit positions are relative to the start of the frame (payload at 24).   *)
(***************************************************************************)
EXTENDS Frame

\* <<name, position, width>>
F1005 == [ type |-> <<24, 12>>, station |-> <<36, 12>>, itrf |-> <<48, 6>>, ign1 |-> <<54, 4>>,
           x |-> <<58, 38>>, ign2 |-> <<96, 2>>, y |-> <<98, 38>>, ign3 |-> <<136, 2>>, z |-> <<138, 38>>,
           height |-> <<176, 16>> ]
Bits1005 == 152
Bits1006 == 168
NeedBits(t) == IF t = 1006 THEN Bits1006 ELSE Bits1005

UF(raw, f) == U(raw, F1005[f][1], F1005[f][2])
CoordBits(raw, f) == FieldBits(raw, F1005[f][1], 38)

\* raw is a frame that the decoder for type t (1005 or 1006) must accept
WellFormedBase(raw, t) ==
    /\ IsValidFrame(raw)
    /\ 8 * (Len(raw) - 6) >= NeedBits(t)
    /\ Type12(raw) = t

\* decoded fields; the 38-bit signed coordinates as limbs of their 64-bit sign extension
DecodeBase(raw, t) ==
    [ station |-> UF(raw, "station"), itrf |-> UF(raw, "itrf"),
      ign1 |-> UF(raw, "ign1"), ign2 |-> UF(raw, "ign2"), ign3 |-> UF(raw, "ign3"),
      x |-> Limbs64(SignExtend64(CoordBits(raw, "x"))),
      y |-> Limbs64(SignExtend64(CoordBits(raw, "y"))),
      z |-> Limbs64(SignExtend64(CoordBits(raw, "z"))),
      height |-> IF t = 1006 THEN UF(raw, "height") ELSE 0 ]

\* ---- display: value * 0.0001 m to four decimals, exactly ----------------
\* quotient and remainder by 10000 of an unsigned bit sequence, bit-serially inside 32-bit integers
QR(bits) == FoldLeft(LAMBDA a, b : LET r2 == 2 * a[2] + b IN
                                   IF r2 >= 10000 THEN << 2 * a[1] + 1, r2 - 10000 >> ELSE << 2 * a[1], r2 >>,
                     << 0, 0 >>, bits)
\* 2^37 = 13743895 * 10000 + 3472
Display4dpSigned38(bits) ==
    LET low == QR(Tail(bits)) IN
    IF bits[1] = 0 THEN [neg |-> FALSE, q |-> low[1], r |-> low[2]]
    ELSE \* magnitude = 2^37 - low37
         LET borrow == IF low[2] > 3472 THEN 1 ELSE 0
             r == IF low[2] > 3472 THEN 10000 + 3472 - low[2] ELSE 3472 - low[2]
             q == 13743895 - low[1] - borrow
         IN [neg |-> TRUE, q |-> q, r |-> r]
Display4dpUnsigned(v) == [neg |-> FALSE, q |-> v \div 10000, r |-> v % 10000]
=============================================================================
