-------------------------------- MODULE Apps --------------------------------
(***************************************************************************)
(* L1: the message-handling entry points of displayrtcm3 and rtcmfilter:   *)
(*     go writer(ch, w);  pipeline sends every message to ch;  close(ch);  *)
(*     [wait for the writer];  return                                      *)
(* and their writer goroutines (DisplayMessages / writeRTCMMessages):      *)
(*     for m := range ch { w.Write(m) }                                    *)
(* The pipeline itself is Pipeline.tla's business and is abstracted to     *)
(* "send message k" steps.  A Write takes time: writeStart and writeEnd    *)
(* are separate steps, so TLC explores every writer latency.               *)
(*                                                                         *)
(* WaitForWriters names the deviation found at the pinned commit: FALSE =  *)
(* the entry point returns right after close(ch) (as found), TRUE = it     *)
(* waits until the writer goroutine has finished (the repaired design).    *)
(* C11 (L0): when the entry point has returned, every message has been     *)
(* completely written.                                                     *)
(*                                                                         *)
(* WriteFailsAt = k > 0 names a hazard of the design as it stands: the     *)
(* writers of rtcmfilter (writeRTCMMessages, writeAllMessages) return at   *)
(* the first write error and so stop receiving, while the fan-out keeps    *)
(* sending to their channel: with the k-th write failing, `Returns` does   *)
(* not hold - the program hangs with the output lost (Apps_fail.cfg, kept  *)
(* as an expected violation; no listed property covers a failing output,   *)
(* the C11 cases with a failing output use the display log, whose writer   *)
(* ignores errors).                                                        *)
(***************************************************************************)
EXTENDS Integers, Sequences

CONSTANTS NMsg,            \* messages produced by the pipeline
          Cap,             \* capacity of the writer's channel (displayrtcm3: 2, rtcmfilter: 0)
          WaitForWriters,
          WriteFailsAt     \* 0: every write succeeds; k: the k-th write fails and the writer goroutine returns

VARIABLES pcM,     \* "send" | "close" | "wait" | "returned"
          next,    \* next message to send
          ch,      \* channel buffer
          closed,
          pcW,     \* "recv" | "write" | "done" | "gone" (returned after a write error, channel not drained)
          cur,     \* message being written
          written  \* messages completely written

vars == <<pcM, next, ch, closed, pcW, cur, written>>

Init == pcM = "send" /\ next = 1 /\ ch = <<>> /\ closed = FALSE /\ pcW = "recv" /\ cur = 0 /\ written = <<>>

\* main: buffered send, or rendezvous with a writer waiting in recv
SendBuf == /\ pcM = "send" /\ next <= NMsg /\ Cap > 0 /\ Len(ch) < Cap
           /\ ch' = Append(ch, next) /\ next' = next + 1
           /\ UNCHANGED <<pcM, closed, pcW, cur, written>>
SendRdv == /\ pcM = "send" /\ next <= NMsg /\ Cap = 0 /\ pcW = "recv"
           /\ cur' = next /\ pcW' = "write" /\ next' = next + 1
           /\ UNCHANGED <<pcM, ch, closed, written>>
AllSent == /\ pcM = "send" /\ next > NMsg /\ pcM' = "close"
           /\ UNCHANGED <<next, ch, closed, pcW, cur, written>>
CloseChan == /\ pcM = "close" /\ closed' = TRUE
             /\ pcM' = IF WaitForWriters THEN "wait" ELSE "returned"
             /\ UNCHANGED <<next, ch, pcW, cur, written>>
WaitDone == /\ pcM = "wait" /\ pcW = "done" /\ pcM' = "returned"
            /\ UNCHANGED <<next, ch, closed, pcW, cur, written>>

\* writer
RecvBuf == /\ pcW = "recv" /\ ch # <<>>
           /\ cur' = Head(ch) /\ ch' = Tail(ch) /\ pcW' = "write"     \* writeStart
           /\ UNCHANGED <<pcM, next, closed, written>>
RecvClosed == /\ pcW = "recv" /\ ch = <<>> /\ closed /\ pcW' = "done"
              /\ UNCHANGED <<pcM, next, ch, closed, cur, written>>
WriteEnd == /\ pcW = "write" /\ Len(written) + 1 # WriteFailsAt
            /\ written' = Append(written, cur) /\ pcW' = "recv"
            /\ UNCHANGED <<pcM, next, ch, closed, cur>>
WriteFail == /\ pcW = "write" /\ Len(written) + 1 = WriteFailsAt /\ pcW' = "gone"
             /\ UNCHANGED <<pcM, next, ch, closed, cur, written>>

Next == SendBuf \/ SendRdv \/ AllSent \/ CloseChan \/ WaitDone \/ RecvBuf \/ RecvClosed \/ WriteEnd \/ WriteFail
Spec == Init /\ [][Next]_vars /\ WF_vars(Next)

\* C11
AllWrittenAtReturn == (pcM = "returned" /\ WriteFailsAt = 0) => written = [k \in 1..NMsg |-> k]
\* order and no duplication at all times
WrittenPrefix == written = [k \in 1..Len(written) |-> k]
Returns == <>(pcM = "returned")
\* how many writes are still outstanding when the entry point returns (for the replay)
Outstanding == NMsg - Len(written)
=============================================================================
