SPECIFICATION SpecB
CONSTANTS W = 28 D = 4 Off = 0 Glonass = FALSE Gap = 24 NonStrict = FALSE H = 120 GloShiftC = 8
INVARIANT IndInv
PROPERTY SameStep
CHECK_DEADLOCK FALSE
