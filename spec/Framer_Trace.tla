---------------------------- MODULE Framer_Trace ----------------------------
(***************************************************************************)
(* Trace validation of the real stream handler (handler.HandleMessages and *)
(* handler.GetMessage) with the real RTCM3 constants.  One pass decides    *)
(* C01, C02, C03, C12 (one list of rejected events per property) and the   *)
(* L1 conformance ("drift": the code left the FramerCore model).           *)
(*                                                                         *)
(* Events of a stream case:                                                *)
(*   [ev |-> "reset", in |-> bytes]           the bytes fed, then closed   *)
(*   [ev |-> "msg", type, raw]                a message received on ch_out *)
(*   [ev |-> "close"]                         ch_out observed closed       *)
(*   [ev |-> "end", closes, panic, timeout]   summary of the case          *)
(* Single-frame decoding:                                                  *)
(*   [ev |-> "getmessage", buf, nilmsg, type, raw, err, panic]             *)
(***************************************************************************)
EXTENDS TraceBase, Frame

RealLeaderOK(f) == ReservedOK(f[2]) /\ PayloadLen(f[2], f[3]) # 0
RealFrameLen(f) == PayloadLen(f[2], f[3]) + LeaderLen + CRCLen
RealCRCOK(f) == SubSeq(f, Len(f) - 2, Len(f)) = CrcBytes(CRC24Q(SubSeq(f, 1, Len(f) - 3)))

R == INSTANCE FramerCore WITH SOFc <- SOF, LeaderLen <- 3, ProbeLen <- 5,
        LeaderOK <- RealLeaderOK, FrameLen <- RealFrameLen, CRCOK <- RealCRCOK, TypeOf <- Type12

ASSUME \A raw \in {<<211, 0, 1, 7, 9, 9, 9>>} : R!IsValid(raw) = IsValidFrame(raw)

VARIABLES l,
          in, pos, closed,      \* L0 state of the current stream case (C02)
          ws03, ws12,           \* stream still well-structured and output in step with the parse
          fst, frest,           \* L1 framer state / remaining input (drift)
          insync,               \* L1 model still in step with the code
          cnt, refaux, vrange,  \* C12: typed messages so far, their derived fields in the stream without the victim, victim byte range
          bad                   \* [c01, c02, c03, c12, drift |-> sequences of event indices]

vars == <<l, in, pos, closed, ws03, ws12, fst, frest, insync, cnt, refaux, vrange, bad>>

NoBad == [c01 |-> <<>>, c02 |-> <<>>, c03 |-> <<>>, c12 |-> <<>>, drift |-> <<>>]

Init == /\ l = 1 /\ in = <<>> /\ pos = 0 /\ closed = FALSE /\ ws03 = FALSE /\ ws12 = FALSE
        /\ fst = R!St0 /\ frest = <<>> /\ insync = FALSE /\ bad = NoBad
        /\ cnt = 0 /\ refaux = <<>> /\ vrange = <<0, 0>>

Add(b, key, ok) == IF ok \/ Len(b[key]) >= MaxBad THEN b ELSE [b EXCEPT ![key] = Append(@, l)]

\* run the L1 framer until it emits one message or closes; at most n+2 byte steps
RunL1(st, rest, n) ==
  FoldLeft(LAMBDA a, k : IF a[3] THEN a
                         ELSE LET r == R!StepOn(a[1], a[2])
                              IN << r[1], r[2], Len(r[1].out) > 0 \/ r[1].done >>,
           << [st EXCEPT !.out = <<>>], rest, FALSE >>, [k \in 1..(n + 2) |-> k])

Reset(e) ==
    /\ in' = e.in /\ pos' = 0 /\ closed' = FALSE /\ ws03' = TRUE /\ ws12' = TRUE
    /\ fst' = R!St0 /\ frest' = e.in /\ insync' = TRUE /\ UNCHANGED bad
    /\ cnt' = 0 /\ refaux' = e.ref_aux /\ vrange' = <<e.vstart, e.vend>>

\* (\E x \in {X} binds x to the value of X once: inside an action TLC re-evaluates a LET-bound expression at every use,
\*  and Classify and RunL1 each compute a CRC-24Q)
OnMsg(e) ==
  \E cls \in {IF pos < Len(in) THEN R!Classify(in, pos) ELSE [kind |-> "none", type |-> -1, raw |-> <<>>]} :
  \E r1 \in {RunL1(fst, frest, Len(e.raw))} :
    LET n == Len(e.raw)
        inrange == n > 0 /\ pos + n <= Len(in)
        c02ok == ~closed /\ inrange /\ SubSeq(in, pos + 1, pos + n) = e.raw
        matches == e.raw = cls.raw /\ e.type = cls.type
        c01ok == \/ e.type < 0
                 \/ (matches /\ cls.kind = "frame")
                 \/ (n >= 5 /\ IsValidFrame(e.raw) /\ e.type = Type12(e.raw))
        w03 == ws03 /\ R!SegOK(cls, FALSE)
        w12 == ws12 /\ R!SegOK(cls, TRUE)
        l1ok == r1[3] /\ ~r1[1].done /\ r1[1].out = << [type |-> e.type, raw |-> e.raw] >>
        \* C12: a segment outside the victim is delivered exactly as without the corruption - also the fields the
        \* handler derives for it (timestamp, times, error text); refaux is what the uncorrupted stream produced
        \* refaux: what the typed messages get when the victim is not in the stream at all (a frame rejected for
        \* its CRC must leave no trace in the handler); cnt counts the typed messages so far
        isVictim == pos < vrange[2] /\ pos + n > vrange[1]
        auxok == refaux = <<>> \/ isVictim \/ e.type < 0 \/ cnt + 1 > Len(refaux) \/ e.aux = refaux[cnt + 1]
    IN /\ bad' = Add(Add(Add(Add(Add(bad, "c01", c01ok), "c02", c02ok),
                         "c03", ~w03 \/ matches), "c12", ~w12 \/ (matches /\ auxok)), "drift", ~insync \/ l1ok)
       /\ cnt' = (IF e.type >= 0 THEN cnt + 1 ELSE cnt) /\ UNCHANGED <<refaux, vrange>>
       /\ pos' = IF c02ok THEN pos + n ELSE pos
       /\ ws03' = (w03 /\ matches) /\ ws12' = (w12 /\ matches)
       /\ insync' = (insync /\ l1ok)
       /\ fst' = IF insync /\ l1ok THEN r1[1] ELSE fst
       /\ frest' = IF insync /\ l1ok THEN r1[2] ELSE frest
       /\ UNCHANGED <<in, closed>>

OnClose(e) ==
    LET c02ok == ~closed /\ pos = Len(in)
        r1 == RunL1(fst, frest, 0)
        l1ok == r1[1].done
    IN /\ bad' = Add(Add(Add(Add(bad, "c02", c02ok), "c03", ~ws03 \/ c02ok), "c12", ~ws12 \/ c02ok),
                     "drift", ~insync \/ l1ok)
       /\ closed' = TRUE
       /\ UNCHANGED <<in, pos, ws03, ws12, fst, frest, insync, cnt, refaux, vrange>>

\* end of case: the output was closed exactly once, nothing crashed or hung
OnEnd(e) ==
    LET ok == e.closes = 1 /\ e.panic = "" /\ ~e.timeout /\ closed
        all == ok /\ pos = Len(in)
    IN
    /\ bad' = Add(Add(Add(bad, "c02", ok), "c03", ~ws03 \/ all), "c12", ~ws12 \/ all)
    /\ UNCHANGED <<in, pos, closed, ws03, ws12, fst, frest, insync, cnt, refaux, vrange>>

\* single-frame decoding (C01 second sentence)
OnGetMessage(e) ==
    LET typedNoErr == ~e.nilmsg /\ e.type >= 0 /\ e.err = ""
        ok == e.panic = "" /\ (typedNoErr => /\ Len(e.raw) >= 7
                                              /\ IsValidFrame(e.raw)
                                              /\ e.type = Type12(e.raw)
                                              /\ Len(e.raw) <= Len(e.buf)
                                              /\ SubSeq(e.buf, 1, Len(e.raw)) = e.raw)
        \* L1: GetMessage on exactly one complete candidate behaves like FramerCore!Finish
        exact == Len(e.buf) >= 7 /\ e.buf[1] = SOF /\ RealLeaderOK(e.buf) /\ Len(e.buf) = RealFrameLen(e.buf)
        l1ok == exact /\ e.panic = "" =>
                   LET f == R!Finish(R!St0, e.buf).out[1] IN ~e.nilmsg /\ f.type = e.type /\ f.raw = e.raw
    IN /\ bad' = Add(Add(bad, "c01", ok), "drift", l1ok)
       /\ UNCHANGED <<in, pos, closed, ws03, ws12, fst, frest, insync, cnt, refaux, vrange>>

Next == /\ l <= Len(Trace)
        /\ l' = l + 1
        /\ LET e == Trace[l] IN
             CASE e.ev = "reset" -> Reset(e)
               [] e.ev = "msg" -> OnMsg(e)
               [] e.ev = "close" -> OnClose(e)
               [] e.ev = "end" -> OnEnd(e)
               [] e.ev = "getmessage" -> OnGetMessage(e)

Rec == TLCSet(1, l) /\ TLCSet(2, bad)

VerdictF ==
    LET b == TLCGet(2) IN
    /\ PrintT(<<"VERDICT", TLCGet(1) - 1, Len(Trace), Len(b.c01) + Len(b.c02) + Len(b.c03) + Len(b.c12)>>)
    /\ PrintT(<<"BADK", "c01", b.c01>>) /\ PrintT(<<"BADK", "c02", b.c02>>)
    /\ PrintT(<<"BADK", "c03", b.c03>>) /\ PrintT(<<"BADK", "c12", b.c12>>)
    /\ PrintT(<<"BADK", "drift", b.drift>>)
    /\ TLCGet(1) - 1 = Len(Trace)
    /\ b.c01 = <<>> /\ b.c02 = <<>> /\ b.c03 = <<>> /\ b.c12 = <<>>
=============================================================================
