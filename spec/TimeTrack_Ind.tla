--------------------------- MODULE TimeTrack_Ind ---------------------------
(***************************************************************************)
(* Unbounded-time argument for the week-rollover tracking (C06 / C17), for *)
(* Apalache: the conversion of one constellation's timestamps, with time   *)
(* an arbitrary integer (no horizon, any number of rollovers).             *)
(*   IndInit /\ Next  =>  IndInv'   and   IndInv => reported time is true  *)
(* W ticks per week, D per day (W = 7 D), Off the constellation's week     *)
(* offset.  Mirrors TimeTrack!Convert for the GPS/Galileo/BeiDou family    *)
(* (Glonass = FALSE) and for GLONASS (day field and ms-in-day).            *)
(***************************************************************************)
EXTENDS Integers

CONSTANTS
    \* @type: Int;
    W,
    \* @type: Int;
    D,
    \* @type: Int;
    Off,
    \* @type: Bool;
    Glonass,
    \* @type: Int;
    Gap,      \* observations are less than Gap ticks apart (the property says six days)
    \* @type: Bool;
    NonStrict \* negative control: roll over on "not later" instead of "earlier"

VARIABLES
    \* @type: Int;
    u,        \* true time of the last observation
    \* @type: Int;
    ws,       \* handler: start of the current week
    \* @type: Int;
    prev,     \* handler: previous timestamp (GLONASS: previous day)
    \* @type: Int;
    shown,    \* time reported for the last observation
    \* @type: Int;
    sow,      \* start of week reported for the last observation
    \* @type: Bool;
    started   \* an observation has been converted since New

Toy  == W = 28 /\ D = 4 /\ Off \in {-3, -2, -1, 0}
\* the real constants: milliseconds; GPS/Galileo -18 s, BeiDou -4 s, GLONASS -3 h
Real == W = 604800000 /\ D = 86400000 /\ Off \in {-18000, -4000, -10800000}
ConstInit     == Toy  /\ Glonass \in BOOLEAN /\ Gap = 6 * D /\ NonStrict = FALSE
ConstInitReal == Real /\ Glonass \in BOOLEAN /\ Gap = 6 * D /\ NonStrict = FALSE
\* the other three constellations tolerate any gap shorter than a week ...
ConstInitWeekGapOther == Real /\ Glonass = FALSE /\ Gap = W /\ NonStrict = FALSE
\* negative controls (IndInv must NOT be inductive):
\* ... GLONASS does not (its day field only shows a rollover when the day number goes down),
ConstInitWeekGapGlonass == Real /\ Glonass = TRUE /\ Gap = W /\ NonStrict = FALSE
\* and a tracker that rolls over when the timestamp is merely not later is wrong for two messages of one epoch
ConstInitNonStrict == Real /\ Glonass \in BOOLEAN /\ Gap = 6 * D /\ NonStrict = TRUE

WeekStart(t) == ((t - Off) \div W) * W + Off
InWeek(t) == t - WeekStart(t)

\* the inductive invariant: after New the handler knows a week start and has seen nothing; once started, its
\* state is a function of the true time of the last observation, and what it reported was the truth
IndInv ==
    IF started
    THEN /\ ws = WeekStart(u)
         /\ prev = (IF Glonass THEN InWeek(u) \div D ELSE InWeek(u))
         /\ shown = u /\ sow = WeekStart(u)
    ELSE ws = WeekStart(ws) /\ prev = 0

\* any state satisfying the invariant (u arbitrary: no horizon) - includes every state right after New(T)
IndInit == /\ u \in Int /\ ws \in Int /\ prev \in Int /\ shown \in Int /\ sow \in Int /\ started \in BOOLEAN
           /\ IndInv

\* one more observation at true time t.  First one: anywhere in the week the handler was started in (C17's
\* precondition; C06's is stronger).  Later ones: not earlier, less than Gap later.
Obs(t) ==
    /\ IF started THEN t >= u /\ t - u < Gap ELSE WeekStart(t) = ws
    /\ LET inw == InWeek(t)
           day == inw \div D
           ms == inw % D
           ts == inw                       \* non-GLONASS timestamp
           back == IF Glonass THEN (IF NonStrict THEN started /\ day <= prev ELSE day < prev)
                              ELSE (IF NonStrict THEN started /\ prev >= ts ELSE prev > ts)
           ws2 == IF back THEN ws + W ELSE ws
       IN /\ ws' = ws2
          /\ prev' = (IF Glonass THEN day ELSE ts)
          /\ shown' = (IF Glonass THEN ws2 + day * D + ms ELSE ws2 + ts)
          /\ sow' = ws2
    /\ u' = t /\ started' = TRUE

Next == \E t \in Int : Obs(t)
=============================================================================
