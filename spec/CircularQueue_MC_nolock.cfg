CONSTANT N = 2
CONSTANT Procs = {"a","b"}
CONSTANT MaxOps = 5
CONSTANT UseLock = FALSE
INIT Init
NEXT Next
INVARIANT SnapshotIsLastN
INVARIANT NeverMoreThanN
INVARIANT AtRestLastN
INVARIANT KeysAscending
INVARIANT LockExclusive
CHECK_DEADLOCK FALSE
