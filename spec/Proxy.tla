-------------------------------- MODULE Proxy --------------------------------
(***************************************************************************)
(* L1: the NTRIP man-in-the-middle proxy (apps/proxy/tcpprox.go), one      *)
(* client connection:                                                      *)
(*   cH  handleClientMessages: read a chunk from the client; tee it byte   *)
(*       by byte into byteChan (unbuffered!) for the RTCM parser; record   *)
(*       the buffer for the report; write the chunk to the server          *)
(*   sH  handleServerMessages: read a chunk from the server; write it to   *)
(*       the client                                                        *)
(*   par rtcm HandleMessages: bytes -> messages on messageChan (unbuffered)*)
(*   upd keepCircularQueueUpdated: message -> queue.Add, log.Write         *)
(*   st  the status page: snapshot of the queue at any time                *)
(* Messages are abstracted to "every MsgLen bytes form a message".         *)
(* ParserCanCrash names the C07 defect found at the pinned commit (a       *)
(* malformed frame panics the parser goroutine and with it the process).   *)
(* C19 (L0): what the server got is a prefix of what the client sent, and  *)
(* all of it once the proxy is quiescent; likewise server -> client; the   *)
(* process stays alive; the report lists only relayed messages: the last   *)
(* min(QN, n) of those parsed so far.                                      *)
(***************************************************************************)
EXTENDS Integers, Sequences

CONSTANTS NC,        \* bytes the client sends
          NS,        \* bytes the server sends
          MaxChunk,  \* largest read
          MsgLen, QN, ParserCanCrash

VARIABLES alive,
          cSent, cBuf, cTee, pcC, sGot,     \* client -> server: bytes sent by the client, chunk in hand, teed so far
          sSent, sBuf, pcS, cGot,           \* server -> client
          parsed, pcP, pend,                \* parser: bytes received, pc, message waiting to be sent
          queue, nmsg,                      \* queue content (message numbers), messages added
          report                            \* last status snapshot
vars == <<alive, cSent, cBuf, cTee, pcC, sGot, sSent, sBuf, pcS, cGot, parsed, pcP, pend, queue, nmsg, report>>

Init == /\ alive = TRUE /\ cSent = 0 /\ cBuf = 0 /\ cTee = 0 /\ pcC = "read" /\ sGot = 0
        /\ sSent = 0 /\ sBuf = 0 /\ pcS = "read" /\ cGot = 0
        /\ parsed = 0 /\ pcP = "recv" /\ pend = 0 /\ queue = <<>> /\ nmsg = 0 /\ report = <<>>

LastMin(n, s) == IF Len(s) <= n THEN s ELSE SubSeq(s, Len(s) - n + 1, Len(s))

CRead == /\ alive /\ pcC = "read" /\ cSent < NC
         /\ \E k \in 1..MaxChunk : k <= NC - cSent /\ cBuf' = k /\ cSent' = cSent + k
         /\ cTee' = 0 /\ pcC' = "tee"
         /\ UNCHANGED <<alive, sGot, sSent, sBuf, pcS, cGot, parsed, pcP, pend, queue, nmsg, report>>
\* rendezvous cH -> parser on the unbuffered byteChan
CTee == /\ alive /\ pcC = "tee" /\ cTee < cBuf /\ pcP = "recv"
        /\ cTee' = cTee + 1 /\ parsed' = parsed + 1
        /\ IF (parsed + 1) % MsgLen = 0 THEN pcP' = "send" /\ pend' = (parsed + 1) \div MsgLen
           ELSE UNCHANGED <<pcP, pend>>
        /\ UNCHANGED <<alive, cSent, cBuf, pcC, sGot, sSent, sBuf, pcS, cGot, queue, nmsg, report>>
CWrite == /\ alive /\ pcC = "tee" /\ cTee = cBuf
          /\ sGot' = sGot + cBuf /\ pcC' = "read"
          /\ UNCHANGED <<alive, cSent, cBuf, cTee, sSent, sBuf, pcS, cGot, parsed, pcP, pend, queue, nmsg, report>>
SRead == /\ alive /\ pcS = "read" /\ sSent < NS
         /\ \E k \in 1..MaxChunk : k <= NS - sSent /\ sBuf' = k /\ sSent' = sSent + k
         /\ pcS' = "write"
         /\ UNCHANGED <<alive, cSent, cBuf, cTee, pcC, sGot, cGot, parsed, pcP, pend, queue, nmsg, report>>
SWrite == /\ alive /\ pcS = "write" /\ cGot' = cGot + sBuf /\ pcS' = "read"
          /\ UNCHANGED <<alive, cSent, cBuf, cTee, pcC, sGot, sSent, sBuf, parsed, pcP, pend, queue, nmsg, report>>
\* parser -> updater rendezvous, then the updater adds to the queue (one step: the updater does nothing else)
PSend == /\ alive /\ pcP = "send"
         /\ queue' = LastMin(QN, Append(queue, pend)) /\ nmsg' = nmsg + 1 /\ pcP' = "recv"
         /\ UNCHANGED <<alive, cSent, cBuf, cTee, pcC, sGot, sSent, sBuf, pcS, cGot, parsed, pend, report>>
PCrash == /\ ParserCanCrash /\ alive /\ pcP = "send" /\ alive' = FALSE
          /\ UNCHANGED <<cSent, cBuf, cTee, pcC, sGot, sSent, sBuf, pcS, cGot, parsed, pcP, pend, queue, nmsg, report>>
Status == /\ alive /\ report' = queue
          /\ UNCHANGED <<alive, cSent, cBuf, cTee, pcC, sGot, sSent, sBuf, pcS, cGot, parsed, pcP, pend, queue, nmsg>>

Next == CRead \/ CTee \/ CWrite \/ SRead \/ SWrite \/ PSend \/ PCrash \/ Status
Fair == WF_vars(CRead) /\ WF_vars(CTee) /\ WF_vars(CWrite) /\ WF_vars(SRead) /\ WF_vars(SWrite) /\ WF_vars(PSend)
Spec == Init /\ [][Next]_vars /\ Fair

RelayPrefix == sGot <= cSent /\ cGot <= sSent
StaysAlive == alive
ReportOnlyRelayed == /\ report = LastMin(QN, [k \in 1..Len(report) |-> IF report = <<>> THEN 0 ELSE report[1] + k - 1])
                     /\ (report # <<>> => report[Len(report)] <= nmsg /\ report[Len(report)] * MsgLen <= cSent)
RelayCompletes == <>(sGot = NC /\ cGot = NS)
=============================================================================
