CONSTANT NMsg = 4
CONSTANT Cap = 0
CONSTANT WaitForWriters = TRUE
SPECIFICATION Spec
INVARIANT AllWrittenAtReturn
INVARIANT WrittenPrefix
PROPERTY Returns
CHECK_DEADLOCK FALSE
