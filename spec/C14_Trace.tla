----------------------------- MODULE C14_Trace -----------------------------
(***************************************************************************)
(* C14: bit-field extraction returns exactly the addressed bits.           *)
(* Event: [buf, pos, len, u, s, panic] - one call of GetBitsAsUint64 and   *)
(* (len >= 2) GetBitsAsInt64 on the real code; u and s are the 64-bit      *)
(* results as three limbs (20/22/22 bits); intact: the caller's memory (the *)
(* buffer and the bytes behind it in the same array) was not written to.   *)
(* The cases include one buffer refilled in place between calls.           *)
(***************************************************************************)
EXTENDS TraceBase, Bits

VARIABLES l, bad

Ok(e) ==
    LET f == FieldBits(e.buf, e.pos, e.len) IN
    /\ e.panic = ""
    /\ e.intact                        \* extraction only reads: the buffer and what follows it in memory are as before
    /\ e.u = Limbs64(ZeroExtend64(f))
    /\ (e.len >= 2 => e.s = Limbs64(SignExtend64(f)))

Init == l = 1 /\ bad = <<>>

Next == /\ l <= Len(Trace)
        /\ l' = l + 1
        /\ bad' = IF Ok(Trace[l]) \/ Len(bad) >= MaxBad THEN bad ELSE Append(bad, l)

Rec == Note(l, bad)
=============================================================================
