CONSTANT CS = {"gps","galileo","glonass","beidou"}
CONSTANT Horizon = 96
CONSTANT FirstNotBeforeT = TRUE
CONSTANT SwLose = FALSE
CONSTANT SwGal = FALSE
CONSTANT SwInit = FALSE
CONSTANT K = 14
INIT SInit
NEXT SNext
INVARIANT Dump
CHECK_DEADLOCK FALSE
