CONSTANT CS = {"gps","glonass"}
CONSTANT Horizon = 96
CONSTANT FirstNotBeforeT = TRUE
CONSTANT SwLose = TRUE
CONSTANT SwGal = FALSE
CONSTANT SwInit = FALSE
CONSTANT K = 99
INIT SInit
NEXT SNext
INVARIANT Correct
CHECK_DEADLOCK FALSE
