------------------------- MODULE CircularQueue_IndEq -------------------------
(***************************************************************************)
(* Binds the Apalache abstraction (CircularQueue_Ind: key interval and     *)
(* counters, unbounded) to the L1 model that the recorded histories of the *)
(* real queue are compared with (CircularQueue: the map as a sequence of   *)
(* <<key, message>>, the ghost sequence of additions).  Checked by TLC on  *)
(* the bounded model: under the mapping below every reachable state of     *)
(* CircularQueue satisfies Ind!IndInv, every step of CircularQueue is the  *)
(* step of the same name of CircularQueue_Ind (or changes only the         *)
(* operation budget), and the mapped C18 statements are the concrete ones. *)
(* The unbounded induction itself is Apalache's.                           *)
(***************************************************************************)
EXTENDS CircularQueue

\* position (from 0) in `added` of message m; messages are distinct (operation numbers)
PosOf(m) == (CHOOSE i \in 1..Len(added) : added[i] = m) - 1
SLo(s) == IF s = <<>> THEN 0 ELSE PosOf(s[1])
SHi(s) == IF s = <<>> THEN 0 ELSE PosOf(s[Len(s)]) + 1
\* a sequence of messages that is a contiguous run of `added` (the empty run is written 0..0 as in Ind!Init)
IsRun(s) == s = <<>> \/ ((\A i \in 1..Len(s) : \E j \in 1..Len(added) : added[j] = s[i]) /\ s = SubSeq(added, SLo(s) + 1, SHi(s)))

Ind == INSTANCE CircularQueue_Ind WITH
         EvictLate <- FALSE,
         lo <- IF items = <<>> THEN nextIdx ELSE items[1][1],
         cnt <- Len(added),
         resLo <- [p \in Procs |-> SLo(snap[p].res)], resHi <- [p \in Procs |-> SHi(snap[p].res)],
         wantLo <- [p \in Procs |-> SLo(snap[p].want)], wantHi <- [p \in Procs |-> SHi(snap[p].want)]

\* the interval abstraction loses nothing: keys are contiguous, the message under key k is added[k+1], and every
\* snapshot and every wanted value is a run of `added`
AbstractionExact ==
    /\ \A i \in 1..Len(items) : items[i][1] = items[1][1] + i - 1 /\ items[i][2] = added[items[i][1] + 1]
    /\ items # <<>> => items[Len(items)][1] = nextIdx - 1
    /\ \A p \in Procs : IsRun(snap[p].res) /\ IsRun(snap[p].want)
MappedInv == Ind!IndInv /\ Ind!Implied
\* with the abstraction exact, the mapped statements say the same as the concrete ones
SameStatements == /\ Ind!ISnapshotIsLastN <=> SnapshotIsLastN
                  /\ Ind!INeverMoreThanN <=> NeverMoreThanN
SameSteps == [][Ind!Next]_(Ind!ivars)
SpecC == Init /\ [][Next]_vars
=============================================================================
