CONSTANT N = 7
CONSTANT Wait = 30
CONSTANT Timeout = 10
CONSTANT Transient = FALSE
SPECIFICATION Spec
INVARIANT NoInvention
INVARIANT C13
PROPERTY Stops
CHECK_DEADLOCK FALSE
