------------------------------ MODULE Pipeline ------------------------------
(***************************************************************************)
(* L1: the reader -> framer -> fan-out pipeline of file_handler.Handle,    *)
(* handler.HandleMessages (through pushback.get) and                       *)
(* appcore.HandleMessagesUntilEOF, as communicating processes over Go      *)
(* channels: byteChan and messageChan unbuffered, consumer channels with   *)
(* the capacities the caller chose (a nil entry is skipped).               *)
(*                                                                         *)
(* Every process stops at named hook points (the verifhook.At call sites   *)
(* in the code, build tag `verif`; consumers are harness goroutines with   *)
(* their own gate) - passing a hook is the scheduler's choice (action      *)
(* Pass).  Channel operations between two hooks happen as soon as both     *)
(* sides are ready (action Op, urgent: Pass is only taken when no Op is     *)
(* enabled), which is how the gated real goroutines behave.                *)
(*                                                                         *)
(* The framer is abstracted to its emission schedule (its segmentation is  *)
(* FramerCore's business): Emit[i] = number of bytes taken from byteChan   *)
(* when message i is sent; NBytes + 1 = sent after the channel was seen    *)
(* closed.  The schedule is computed from the real bytes by FramerCore.    *)
(***************************************************************************)
EXTENDS Integers, Sequences, FiniteSets, TLC

CONSTANTS NBytes,      \* length of the input
          Emit,        \* emission schedule of the framer, non-decreasing
          CloseAt,     \* NBytes + number of reads of the closed byteChan after which the framer closes its output
          Caps,        \* Caps[i]: capacity of consumer channel i, -1 = nil entry
          RecHist      \* record the history of Pass steps (off for liveness checking)

NMsg == Len(Emit)
Cons == {i \in 1..Len(Caps) : Caps[i] >= 0}

VARIABLES pcR, sent,                 \* reader: bytes sent so far
          closedB,                   \* byteChan closed
          pcF, taken, emitted,       \* framer: bytes received, messages sent
          closedM,                   \* messageChan closed
          pcM, cur, idx,             \* fan-out: current message id, index of the consumer being served
          buf, got, pcC,             \* consumer channels' buffers, received sequences, consumer pcs
          hist                       \* history of Pass steps (hidden from the fingerprint by VIEW)

vars == <<pcR, sent, closedB, pcF, taken, emitted, closedM, pcM, cur, idx, buf, got, pcC, hist>>
view == <<pcR, sent, closedB, pcF, taken, emitted, closedM, pcM, cur, idx, buf, got, pcC>>

NextCons(i) == IF \E j \in Cons : j > i THEN CHOOSE j \in Cons : j > i /\ \A k \in Cons : k > i => j <= k ELSE 0

Init == /\ pcR = IF NBytes > 0 THEN "reader.send" ELSE "reader.return"
        /\ sent = 0 /\ closedB = FALSE
        /\ pcF = "framer.recv" /\ taken = 0 /\ emitted = 0 /\ closedM = FALSE
        /\ pcM = "fanout.recv" /\ cur = 0 /\ idx = 0
        /\ buf = [i \in Cons |-> <<>>] /\ got = [i \in Cons |-> <<>>] /\ pcC = [i \in Cons |-> "cons.recv"]
        /\ hist = <<>>

\* pc values ending in "!" mean: hook passed, now executing / blocked in the channel operation
Rec(x) == IF RecHist THEN Append(hist, x) ELSE hist

Hooks == {"reader.send", "reader.return", "framer.recv", "framer.send", "framer.close",
          "fanout.recv", "fanout.send", "fanout.return", "cons.recv"}

----------------------------------------------------------------------------
\* Pass: the scheduler lets one process through its hook
PassR == /\ pcR \in {"reader.send", "reader.return"}
         /\ hist' = Rec(<<"R", pcR, sent>>)
         /\ IF pcR = "reader.send" THEN pcR' = "reader.send!" /\ UNCHANGED closedB
            ELSE pcR' = "done" /\ closedB' = TRUE       \* deferred close(byteChan) follows the return hook
         /\ UNCHANGED <<sent, pcF, taken, emitted, closedM, pcM, cur, idx, buf, got, pcC>>

PassF == /\ pcF \in {"framer.recv", "framer.send", "framer.close"}
         /\ hist' = Rec(<<"F", pcF, IF pcF = "framer.send" THEN emitted + 1 ELSE taken>>)
         /\ IF pcF = "framer.close" THEN pcF' = "done" /\ closedM' = TRUE
            ELSE pcF' = pcF \o "!" /\ UNCHANGED closedM
         /\ UNCHANGED <<pcR, sent, closedB, taken, emitted, pcM, cur, idx, buf, got, pcC>>

PassM == /\ pcM \in {"fanout.recv", "fanout.send", "fanout.return"}
         /\ hist' = Rec(<<"M", pcM, idx>>)
         /\ pcM' = IF pcM = "fanout.return" THEN "done" ELSE pcM \o "!"
         /\ UNCHANGED <<pcR, sent, closedB, pcF, taken, emitted, closedM, cur, idx, buf, got, pcC>>

PassC(i) == /\ pcC[i] = "cons.recv"
            /\ hist' = Rec(<<"C", "cons.recv", i>>)
            /\ pcC' = [pcC EXCEPT ![i] = "cons.recv!"]
            /\ UNCHANGED <<pcR, sent, closedB, pcF, taken, emitted, closedM, pcM, cur, idx, buf, got>>

Pass == PassR \/ PassF \/ PassM \/ \E i \in Cons : PassC(i)

----------------------------------------------------------------------------
\* Op: channel operations (urgent)
AfterByte(t) == IF emitted < NMsg /\ Emit[emitted + 1] = t THEN "framer.send" ELSE "framer.recv"

\* byteChan rendezvous
OpByte == /\ pcR = "reader.send!" /\ pcF = "framer.recv!"
          /\ sent' = sent + 1 /\ taken' = taken + 1
          /\ pcR' = IF sent + 1 < NBytes THEN "reader.send" ELSE "reader.return"
          /\ pcF' = AfterByte(taken + 1)
          /\ UNCHANGED <<closedB, emitted, closedM, pcM, cur, idx, buf, got, pcC, hist>>

\* receive on the closed byteChan: the "done" error
OpByteClosed == /\ pcF = "framer.recv!" /\ closedB /\ pcR = "done"
                /\ taken' = taken + 1           \* counts reads of the closed channel beyond NBytes
                /\ pcF' = IF emitted < NMsg /\ Emit[emitted + 1] = taken + 1 THEN "framer.send"
                          ELSE IF taken + 1 >= CloseAt THEN "framer.close" ELSE "framer.recv"
                /\ UNCHANGED <<pcR, sent, closedB, emitted, closedM, pcM, cur, idx, buf, got, pcC, hist>>

\* messageChan rendezvous
OpMsg == /\ pcF = "framer.send!" /\ pcM = "fanout.recv!"
         /\ emitted' = emitted + 1 /\ cur' = emitted + 1
         /\ pcF' = "framer.recv"
         /\ idx' = NextCons(0)
         /\ pcM' = IF NextCons(0) = 0 THEN "fanout.recv" ELSE "fanout.send"
         /\ UNCHANGED <<pcR, sent, closedB, taken, closedM, buf, got, pcC, hist>>

OpMsgClosed == /\ pcM = "fanout.recv!" /\ closedM
               /\ pcM' = "fanout.return"
               /\ UNCHANGED <<pcR, sent, closedB, pcF, taken, emitted, closedM, cur, idx, buf, got, pcC, hist>>

AfterSend == /\ idx' = NextCons(idx)
             /\ pcM' = IF NextCons(idx) = 0 THEN "fanout.recv" ELSE "fanout.send"

\* fan-out send to consumer idx: rendezvous (capacity 0) or buffer
OpSendUnbuf == /\ pcM = "fanout.send!" /\ Caps[idx] = 0 /\ pcC[idx] = "cons.recv!"
               /\ got' = [got EXCEPT ![idx] = Append(@, cur)]
               /\ pcC' = [pcC EXCEPT ![idx] = "cons.recv"]
               /\ AfterSend
               /\ UNCHANGED <<pcR, sent, closedB, pcF, taken, emitted, closedM, cur, buf, hist>>
OpSendBuf == /\ pcM = "fanout.send!" /\ Caps[idx] > 0 /\ Len(buf[idx]) < Caps[idx]
             /\ buf' = [buf EXCEPT ![idx] = Append(@, cur)]
             /\ AfterSend
             /\ UNCHANGED <<pcR, sent, closedB, pcF, taken, emitted, closedM, cur, got, pcC, hist>>
OpRecvBuf(i) == /\ pcC[i] = "cons.recv!" /\ Caps[i] > 0 /\ buf[i] # <<>>
                /\ got' = [got EXCEPT ![i] = Append(@, Head(buf[i]))]
                /\ buf' = [buf EXCEPT ![i] = Tail(@)]
                /\ pcC' = [pcC EXCEPT ![i] = "cons.recv"]
                /\ UNCHANGED <<pcR, sent, closedB, pcF, taken, emitted, closedM, pcM, cur, idx, hist>>

\* the call has returned and the consumers have drained their channels: the behaviour ends
Quiescent == pcM = "done" /\ \A i \in Cons : Len(got[i]) = NMsg

Op == OpByte \/ OpByteClosed \/ OpMsg \/ OpMsgClosed \/ OpSendUnbuf \/ OpSendBuf \/ \E i \in Cons : OpRecvBuf(i)

Next == ~Quiescent /\ (Op \/ (~ENABLED Op /\ Pass))
Spec == Init /\ [][Next]_vars /\ WF_vars(Next) /\ WF_vars(PassR) /\ WF_vars(PassF) /\ WF_vars(PassM)
             /\ \A i \in Cons : WF_vars(PassC(i))

----------------------------------------------------------------------------
\* L0 (C09): every consumer receives a prefix of the sequential message sequence, all of it at the end
Prefix(s) == s = [k \in 1..Len(s) |-> k]
Delivered(i) == got[i] \o buf[i]
C09Safe == \A i \in Cons : Prefix(Delivered(i)) /\ Len(Delivered(i)) <= NMsg
C09Done == pcM = "done" => /\ \A i \in Cons : Len(Delivered(i)) = NMsg
                           /\ pcR = "done" /\ pcF = "done" /\ closedB /\ closedM   \* helpers finished, channels closed once
\* nothing is sent on a closed channel (structural: would be a Go panic)
NoSendOnClosed == /\ (closedB => pcR = "done")
                  /\ (closedM => pcF = "done")
Terminates == <>(pcM = "done")
AllReceived == <>(\A i \in Cons : Len(got[i]) = NMsg)

=============================================================================
