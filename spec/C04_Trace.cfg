INIT Init
NEXT Next
CONSTRAINT Rec
POSTCONDITION VerdictC04
CHECK_DEADLOCK FALSE
