----------------------------- MODULE C20_Trace -----------------------------
(***************************************************************************)
(* C20: message-type classification is total and consistent.               *)
(* One event per type t in -2..4095, in ascending order (exhaustive).      *)
(* Each event records what every classifier of the real library said       *)
(* about t and about a synthetic CRC-valid frame of type t whose payload   *)
(* is long enough and well-formed for every decoder family (all-zero body, *)
(* timestamp field = 1000).                                                *)
(***************************************************************************)
EXTENDS TraceBase, MsgTypes

ASSUME TableConsistent
ASSUME Len(Trace) = 4098 + 48 + 8 + 4096 + 4096

VARIABLES l, bad

Ok(e, i) ==
    LET t == e.t IN
    /\ t = i - 3                      \* complete, in order: -2, -1, 0, ... 4095
    /\ e.panic = ""
    /\ e.msm4 = (t \in MSM4Types)
    /\ e.msm7 = (t \in MSM7Types)
    /\ e.msm = (t \in MSMTypes)
    /\ e.con = ConstellationOf(t)
    /\ e.title                        \* non-empty title
    /\ e.display                      \* String() returned non-empty text
    /\ (t >= 0 =>
          /\ e.gm_type = t            \* GetMessage on the synthetic frame reports the type
          /\ e.ts = (IF HasTimestamp(t) THEN 1000 ELSE 0)
          /\ e.timelines = HasTimestamp(t)
          /\ e.acc_msm4 = (Family(t) = "msm4")
          /\ e.acc_msm7 = (Family(t) = "msm7")
          /\ e.acc_1005 = (Family(t) = "1005")
          /\ e.acc_1006 = (Family(t) = "1006")
          /\ e.attempt = Family(t))

\* Events 4099..4146: for every ordered pair (t, t2) of MSM types of DIFFERENT timed constellations, three messages
\* t (late in the week), t2 (early in its week), t (one second after the first) through one handler: the time
\* conversion must be dispatched on t's own constellation, so t2 cannot disturb it:
\*   [t, t2, delta_ms, sow_same, err]
OkDispatch(e) ==
    /\ ConstellationOf(e.t) \in TimedConstellations /\ ConstellationOf(e.t2) \in TimedConstellations
    /\ ConstellationOf(e.t) # ConstellationOf(e.t2)
    /\ e.err = "" /\ e.delta_ms = 1000 /\ e.sow_same

\* Events 4147..4154: each of the eight timed MSM types alone across its own week roll-over (a message one second before the
\* end of its week, the next 2 s later): [t, roll, delta_ms, sow_delta_ms, err] - the time advances by 2 s, the start of week
\* by exactly one week
OkRoll(e) == e.roll /\ ConstellationOf(e.t) \in TimedConstellations /\ e.err = "" /\ e.delta_ms = 2000 /\ e.sow_delta_ms = 604800000

\* Events 4155..8250: one per type 0..4095 as a frame whose CRC check fails: [t, crc, gm_type, stamped, rejected, panic] - it is
\* other data whatever its type bits say (C01), so the classification by type does not apply: not typed, reported as an
\* error, no timestamp extracted and no times attached ("only MSM types carry an extracted timestamp")
OkCrc(e, i) == e.t = i - 4155 /\ e.crc /\ e.panic = "" /\ e.gm_type = -1 /\ e.rejected /\ ~e.stamped

\* Events 8251..12346: one per type 0..4095 from a fresh process whose first use of the library was eight goroutines
\* displaying a frame of every type at the same time: [t, conc, ok] - every one of them got a title and a display
OkConc(e, i) == e.t = i - 8251 /\ e.conc /\ e.ok

Init == l = 1 /\ bad = <<>>
Next == /\ l <= Len(Trace)
        /\ l' = l + 1
        /\ bad' = IF (IF l <= 4098 THEN Ok(Trace[l], l) ELSE IF l <= 4146 THEN OkDispatch(Trace[l]) ELSE IF l <= 4154 THEN OkRoll(Trace[l]) ELSE IF l <= 8250 THEN OkCrc(Trace[l], l) ELSE OkConc(Trace[l], l)) \/ Len(bad) >= MaxBad THEN bad ELSE Append(bad, l)
Rec == Note(l, bad)
=============================================================================
