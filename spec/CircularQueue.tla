---------------------------- MODULE CircularQueue ----------------------------
(***************************************************************************)
(* The proxy's recent-message queue (apps/proxy/circular_queue).           *)
(* L0 (LastN): a snapshot returns the most recent min(N, number added)     *)
(* messages in the order they were added; never more than N are held.      *)
(* L1: Add and GetMessages as critical sections of a sync.RWMutex:         *)
(*   Add:  Lock; evict oldest while full; insert at NextIndex; NextIndex++;*)
(*         Unlock         GetMessages:  RLock; copy in key order; RUnlock  *)
(* Eviction and insertion are separate steps, so the lock matters: with    *)
(* UseLock = FALSE (a mutation, for the self-test) TLC finds a snapshot    *)
(* taken between them.                                                     *)
(***************************************************************************)
EXTENDS Integers, Sequences, FiniteSets

CONSTANTS N,          \* capacity
          Procs,      \* processes
          MaxOps,     \* bound on the total number of operations started
          UseLock

LastMin(n, s) == IF Len(s) <= n THEN s ELSE SubSeq(s, Len(s) - n + 1, Len(s))

VARIABLES items,     \* the map as a sequence of <<key, msg>> in key order
          nextIdx,
          writer,    \* process holding the write lock, or "none"
          readers,   \* processes holding a read lock
          pc, arg,   \* per process: program counter and message being added
          added,     \* ghost: messages in the order their insertion happened
          snap,      \* per process: last snapshot taken and the ghost state at that moment
          ops

vars == <<items, nextIdx, writer, readers, pc, arg, added, snap, ops>>

Init == /\ items = <<>> /\ nextIdx = 0 /\ writer = "none" /\ readers = {}
        /\ pc = [p \in Procs |-> "idle"] /\ arg = [p \in Procs |-> 0]
        /\ added = <<>> /\ snap = [p \in Procs |-> [res |-> <<>>, want |-> <<>>]] /\ ops = 0

StartAdd(p) == /\ pc[p] = "idle" /\ ops < MaxOps
               /\ pc' = [pc EXCEPT ![p] = "add.lock"] /\ arg' = [arg EXCEPT ![p] = ops + 1] /\ ops' = ops + 1
               /\ UNCHANGED <<items, nextIdx, writer, readers, added, snap>>
AddLock(p) == /\ pc[p] = "add.lock" /\ (UseLock => writer = "none" /\ readers = {})
              /\ writer' = IF UseLock THEN p ELSE writer
              /\ pc' = [pc EXCEPT ![p] = "add.evict"]
              /\ UNCHANGED <<items, nextIdx, readers, arg, added, snap, ops>>
AddEvict(p) == /\ pc[p] = "add.evict"
               /\ items' = IF Len(items) >= N THEN SubSeq(items, Len(items) - N + 2, Len(items)) ELSE items
               /\ pc' = [pc EXCEPT ![p] = "add.insert"]
               /\ UNCHANGED <<nextIdx, writer, readers, arg, added, snap, ops>>
AddInsert(p) == /\ pc[p] = "add.insert"
                /\ items' = Append(items, <<nextIdx, arg[p]>>) /\ nextIdx' = nextIdx + 1
                /\ added' = Append(added, arg[p])
                /\ pc' = [pc EXCEPT ![p] = "add.unlock"]
                /\ UNCHANGED <<writer, readers, arg, snap, ops>>
AddUnlock(p) == /\ pc[p] = "add.unlock"
                /\ writer' = IF UseLock THEN "none" ELSE writer
                /\ pc' = [pc EXCEPT ![p] = "idle"]
                /\ UNCHANGED <<items, nextIdx, readers, arg, added, snap, ops>>

StartGet(p) == /\ pc[p] = "idle" /\ ops < MaxOps
               /\ pc' = [pc EXCEPT ![p] = "get.rlock"] /\ ops' = ops + 1
               /\ UNCHANGED <<items, nextIdx, writer, readers, arg, added, snap>>
GetRLock(p) == /\ pc[p] = "get.rlock" /\ (UseLock => writer = "none")
               /\ readers' = IF UseLock THEN readers \cup {p} ELSE readers
               /\ pc' = [pc EXCEPT ![p] = "get.copy"]
               /\ UNCHANGED <<items, nextIdx, writer, arg, added, snap, ops>>
GetCopy(p) == /\ pc[p] = "get.copy"
              /\ snap' = [snap EXCEPT ![p] = [res |-> [i \in 1..Len(items) |-> items[i][2]], want |-> LastMin(N, added)]]
              /\ pc' = [pc EXCEPT ![p] = "get.runlock"]
              /\ UNCHANGED <<items, nextIdx, writer, readers, arg, added, ops>>
GetRUnlock(p) == /\ pc[p] = "get.runlock"
                 /\ readers' = readers \ {p}
                 /\ pc' = [pc EXCEPT ![p] = "idle"]
                 /\ UNCHANGED <<items, nextIdx, writer, arg, added, snap, ops>>

Next == \E p \in Procs : StartAdd(p) \/ AddLock(p) \/ AddEvict(p) \/ AddInsert(p) \/ AddUnlock(p)
                         \/ StartGet(p) \/ GetRLock(p) \/ GetCopy(p) \/ GetRUnlock(p)

\* C18
SnapshotIsLastN == \A p \in Procs : snap[p].res = snap[p].want
NeverMoreThanN == Len(items) <= N
\* quiescent state of the map = LastN of everything added
AtRestLastN == (\A p \in Procs : pc[p] = "idle") => [i \in 1..Len(items) |-> items[i][2]] = LastMin(N, added)
KeysAscending == \A i \in 1..(Len(items) - 1) : items[i][1] < items[i + 1][1]
LockExclusive == UseLock => (writer # "none" => readers = {})
=============================================================================
