------------------------------- MODULE Logger -------------------------------
(***************************************************************************)
(* L1: rtcmlogger (apps/rtcmlogger/main.go): start() creates the recorder  *)
(* channel (unbuffered), starts recorder() and runs readAndWrite():        *)
(*   copy:  read a block from stdin (EOF -> stop); write it to stdout;     *)
(*          send a copy to the recorder channel                            *)
(*   rec:   receive a block; write it to the day's record file             *)
(*   main:  when copy has stopped: close the channel [wait for rec]; exit  *)
(* Process exit kills the recorder wherever it is.                         *)
(* WaitForRecorder names the deviation found at the pinned commit (FALSE = *)
(* exit without waiting).  C16 (L0): at exit stdout = stdin and the record *)
(* file = stdin; stdout is a prefix of stdin at all times.                 *)
(***************************************************************************)
EXTENDS Integers, Sequences

CONSTANTS NBlocks, WaitForRecorder

VARIABLES pcC, blk,        \* copy: pc and the number of the block in hand
          pcR, rblk,       \* recorder: pc and block in hand
          closed, exited,
          stdout, file     \* blocks written so far

vars == <<pcC, blk, pcR, rblk, closed, exited, stdout, file>>

Init == /\ pcC = "read" /\ blk = 0 /\ pcR = "recv" /\ rblk = 0 /\ closed = FALSE /\ exited = FALSE
        /\ stdout = <<>> /\ file = <<>>

CopyRead == /\ ~exited /\ pcC = "read"
            /\ IF blk < NBlocks THEN blk' = blk + 1 /\ pcC' = "stdout" ELSE pcC' = "eof" /\ UNCHANGED blk
            /\ UNCHANGED <<pcR, rblk, closed, exited, stdout, file>>
CopyStdout == /\ ~exited /\ pcC = "stdout" /\ stdout' = Append(stdout, blk) /\ pcC' = "send"
              /\ UNCHANGED <<blk, pcR, rblk, closed, exited, file>>
\* rendezvous on the unbuffered recorder channel (hooks copy.send / rec.write bracket it)
CopySend == /\ ~exited /\ pcC = "send" /\ pcR = "recv"
            /\ rblk' = blk /\ pcR' = "write" /\ pcC' = "read"
            /\ UNCHANGED <<blk, closed, exited, stdout, file>>
RecWrite == /\ ~exited /\ pcR = "write" /\ file' = Append(file, rblk) /\ pcR' = "recv"
            /\ UNCHANGED <<pcC, blk, rblk, closed, exited, stdout>>
RecClosed == /\ ~exited /\ pcR = "recv" /\ closed /\ pcR' = "done"
             /\ UNCHANGED <<pcC, blk, rblk, closed, exited, stdout, file>>
MainClose == /\ ~exited /\ pcC = "eof" /\ closed' = TRUE /\ pcC' = "closed"
             /\ UNCHANGED <<blk, pcR, rblk, exited, stdout, file>>
MainExit == /\ ~exited /\ pcC = "closed" /\ (WaitForRecorder => pcR = "done")
            /\ exited' = TRUE
            /\ UNCHANGED <<pcC, blk, pcR, rblk, closed, stdout, file>>

Next == CopyRead \/ CopyStdout \/ CopySend \/ RecWrite \/ RecClosed \/ MainClose \/ MainExit
Spec == Init /\ [][Next]_vars /\ WF_vars(Next)

All == [k \in 1..NBlocks |-> k]
IsPrefixOfAll(s) == s = [k \in 1..Len(s) |-> k]
C16AtExit == exited => stdout = All /\ file = All
C16Prefix == IsPrefixOfAll(stdout) /\ IsPrefixOfAll(file)
Exits == <>exited
=============================================================================
