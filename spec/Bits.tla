------------------------------- MODULE Bits -------------------------------
(***************************************************************************)
(* Bit-level view of a byte buffer.  A buffer is a sequence of bytes       *)
(* (0..255).  Bit positions count from 0 at the most significant bit of    *)
(* the first byte, as in RTCM 10403 and RTKLIB's getbitu().                *)
(*                                                                         *)
(* TLC integers are 32-bit: numeric values are only formed for fields of   *)
(* at most 30 bits (U) / 31 bits (S); wider fields are handled as bit      *)
(* sequences and compared limb-wise (Limbs64).                             *)
(***************************************************************************)
EXTENDS Integers, Sequences, SequencesExt

Pow2(n) == 2^n

\* bit i (0-based, MSB first) of buffer buf
Bit(buf, i) == (buf[(i \div 8) + 1] \div Pow2(7 - (i % 8))) % 2

\* the len bits starting at bit position pos, most significant first
FieldBits(buf, pos, len) == [k \in 1..len |-> Bit(buf, pos + k - 1)]

\* number of bits in a buffer
NBits(buf) == 8 * Len(buf)

\* value of a bit sequence (length <= 30)
BitsToNat(bits) == FoldLeft(LAMBDA acc, b : 2 * acc + b, 0, bits)

\* unsigned field value, len <= 30
U(buf, pos, len) == BitsToNat(FieldBits(buf, pos, len))

\* two's complement value of a bit sequence, 2 <= length <= 31
BitsToInt(bits) == BitsToNat(Tail(bits)) - bits[1] * Pow2(Len(bits) - 1)

\* signed field value, 2 <= len <= 31
S(buf, pos, len) == BitsToInt(FieldBits(buf, pos, len))

\* 64-bit images of a field
Zeros(n) == [k \in 1..n |-> 0]
Rep(b, n) == [k \in 1..n |-> b]
ZeroExtend64(bits) == Zeros(64 - Len(bits)) \o bits
SignExtend64(bits) == Rep(bits[1], 64 - Len(bits)) \o bits

\* a 64-bit image as three limbs <<top 20 bits, middle 22 bits, low 22 bits>>
Limbs64(b64) == << BitsToNat(SubSeq(b64, 1, 20)),
                   BitsToNat(SubSeq(b64, 21, 42)),
                   BitsToNat(SubSeq(b64, 43, 64)) >>

\* popcount of a bit sequence
PopCount(bits) == FoldLeft(LAMBDA acc, b : acc + b, 0, bits)

\* indices (1-based) of the set bits, ascending
SetBits(bits) == SelectSeq([k \in 1..Len(bits) |-> k], LAMBDA k : bits[k] = 1)

AllZero(bits) == \A k \in 1..Len(bits) : bits[k] = 0
=============================================================================
