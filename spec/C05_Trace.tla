----------------------------- MODULE C05_Trace -----------------------------
(***************************************************************************)
(* C05: base-position messages 1005/1006 decode exactly and display to     *)
(* 0.1 mm.  Event: one call of type1005.GetMessage or type1006.GetMessage  *)
(* (dec = 1005 / 1006) on frame raw, or of the handler path (GetMessage +  *)
(* Analyse), with the decoded fields and the decimal tokens of String().   *)
(*   [raw, dec, err, fields, tokens]                                       *)
(* fields: [station, itrf, ign1, ign2, ign3, x, y, z (limbs), height]      *)
(* tokens: sequence of [neg, q, r] parsed from the decimal numbers shown   *)
(***************************************************************************)
EXTENDS TraceBase, Base1005

VARIABLES l, bad

Expected(raw, t) ==
    LET toks == << Display4dpSigned38(CoordBits(raw, "x")), Display4dpSigned38(CoordBits(raw, "y")),
                   Display4dpSigned38(CoordBits(raw, "z")) >>
    IN IF t = 1006 THEN Append(toks, Display4dpUnsigned(UF(raw, "height"))) ELSE toks

Ok(e) ==
    /\ e.panic = ""
    /\ IF WellFormedBase(e.raw, e.dec)
       THEN /\ e.err = ""
            /\ e.fields = DecodeBase(e.raw, e.dec)
            /\ e.tokens = Expected(e.raw, e.dec)
       ELSE e.err # ""          \* wrong type or too short: rejected with an error

Init == l = 1 /\ bad = <<>>
Next == /\ l <= Len(Trace)
        /\ l' = l + 1
        /\ bad' = IF Ok(Trace[l]) \/ Len(bad) >= MaxBad THEN bad ELSE Append(bad, l)
Rec == Note(l, bad)
=============================================================================
