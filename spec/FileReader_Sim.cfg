CONSTANT N = 8
CONSTANT Wait = 1
CONSTANT Timeout = 30
CONSTANT Transient = TRUE
INIT Init
NEXT Next
INVARIANT Dump
CHECK_DEADLOCK FALSE
