CONSTANT CS = {"gps","galileo"}
CONSTANT Horizon = 100
CONSTANT FirstNotBeforeT = TRUE
CONSTANT SwLose = FALSE
CONSTANT SwGal = TRUE
CONSTANT SwInit = FALSE
INIT Init
NEXT Next
INVARIANT Correct
CHECK_DEADLOCK FALSE
