CONSTANT Bytes = {1, 2}
CONSTANT MaxLen = 4
SPECIFICATION Spec
INVARIANT Owed
PROPERTY DoneOnlyAtEnd
PROPERTY NothingLost
CHECK_DEADLOCK FALSE
