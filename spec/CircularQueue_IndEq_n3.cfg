SPECIFICATION SpecC
CONSTANT N = 3
CONSTANT Procs = {"a","b","c"}
CONSTANT MaxOps = 6
CONSTANT UseLock = TRUE
INVARIANT AbstractionExact
INVARIANT MappedInv
INVARIANT SameStatements
PROPERTY SameSteps
CHECK_DEADLOCK FALSE
