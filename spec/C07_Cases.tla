----------------------------- MODULE C07_Cases -----------------------------
(***************************************************************************)
(* C07 (no input can crash or hang framing, decoding or display).          *)
(*                                                                         *)
(* 1. The decoders' length guards as a model (MSM header, satellite and    *)
(*    signal data of MSM4/MSM7, the handler's timestamp read, 1005/1006)   *)
(*    and the invariant that whenever the guards accept, every bit the     *)
(*    decoder then reads lies inside the frame - for every payload length  *)
(*    1..1023 and every mask shape (nSat 0..64, nSig 0..32).               *)
(* 2. The case space for the runtime check: for every (family, nSat, nSig) *)
(*    the payload lengths at which some guard flips (each threshold -4..+1 *)
(*    bytes; the spread covers the 3 CRC bytes that MSM7's satellite guard *)
(*    counts as data) plus the extremes.  Printed as JSON lines and        *)
(*    replayed on the real code by the C07 driver.                         *)
(***************************************************************************)
EXTENDS MSMGuards, TLC, Json, FiniteSets

CONSTANTS NSats, NSigs

VARIABLES fam, nSat, nSig
vars == <<fam, nSat, nSig>>

\* every read of an accepting decoder lies inside the frame
InBounds ==
    LET t == TypeOfFam(fam) IN
    \A L \in Lens :
       /\ TsAccept(L) => TsMaxRead <= FrameBits(L)
       /\ HdrAccept(L, nSat, nSig) => HdrMaxRead(nSat, nSig) <= FrameBits(L)
       /\ HdrAccept(L, nSat, nSig) /\ SatAccept(t, L, nSat, nSig) =>
             /\ SatMaxRead(t, nSat, nSig) <= FrameBits(L)
             /\ \A nc \in {0, 1, nSat * nSig} :
                   SigDataPos(t, nSat, nSig) + CellsRead(t, L, nSat, nSig, nc) * SigCellBits(t) <= FrameBits(L)
       /\ Accept1005(L) => P0 + 152 <= FrameBits(L)
       /\ Accept1006(L) => P0 + 168 <= FrameBits(L)

\* ---- the case space ---------------------------------------------------------
Around(b) == {x \in (b - 4)..(b + 1) : x \in Lens}
Thresholds(t, ns, ng) ==
    LET X == ns * ng
        nc == IF X <= 64 THEN X ELSE 0
    IN {CeilDiv(54, 8), CeilDiv(MinHdrBits, 8)} \cup
       (IF X <= 64
        THEN { CeilDiv(HdrBits(ns, ng), 8),
               CeilDiv(HdrBits(ns, ng) + ns * SatCellBits(t), 8),
               NeedBytes(t, ns, ng, 1), NeedBytes(t, ns, ng, nc), NeedBytes(t, ns, ng, nc + 1) }
        ELSE {})
CaseLens(t, ns, ng) ==
    (UNION {Around(b) : b \in Thresholds(t, ns, ng)}) \cup {1, 2, 3, 1023}

Emit == PrintT(<<"CASE", ToJson([fam |-> fam, nsat |-> nSat, nsig |-> nSig,
                                  lens |-> SetToSeq(CaseLens(TypeOfFam(fam), nSat, nSig))])>>)

Init == fam \in {"msm4", "msm7"} /\ nSat \in NSats /\ nSig \in NSigs
Next == UNCHANGED vars
EmitAll == Emit
=============================================================================
