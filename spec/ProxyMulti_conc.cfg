CONSTANT K = 2
CONSTANT NC = 4
CONSTANT MaxChunk = 2
CONSTANT MsgLen = 2
CONSTANT QN = 2
CONSTANT Concurrent = TRUE
SPECIFICATION Spec
INVARIANT TypeOK
INVARIANT RelayPrefix
INVARIANT ReportOnlySentBytes
INVARIANT ReportContiguous
PROPERTY RelayCompletes
CHECK_DEADLOCK FALSE
