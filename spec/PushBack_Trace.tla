--------------------------- MODULE PushBack_Trace ---------------------------
(***************************************************************************)
(* API-level conformance of rtcm/pushback.ByteChannel to PushBack.tla:     *)
(* seeded sequences of send / close / push / get on the real type, every   *)
(* result of GetNextByte compared with the model's.  Events:               *)
(*   [op |-> "new"]  [op |-> "send", b]  [op |-> "close"]                  *)
(*   [op |-> "push", b]  [op |-> "get", b, err]    (b = -1 with an error)  *)
(* A monitor like the others: rejected events are listed, not blocking.    *)
(* Not a listed property: the result is a model-conformance note of the    *)
(* framer checks (the framer's correctness rests on this behaviour).       *)
(***************************************************************************)
EXTENDS TraceBase

VARIABLES l, bad, pb, ch, closed

Init == l = 1 /\ bad = <<>> /\ pb = <<>> /\ ch = <<>> /\ closed = FALSE

Flag(ok) == bad' = IF ok \/ Len(bad) >= MaxBad THEN bad ELSE Append(bad, l)

Next == /\ l <= Len(Trace)
        /\ l' = l + 1
        /\ LET e == Trace[l] IN
           CASE e.op = "new" -> pb' = <<>> /\ ch' = <<>> /\ closed' = FALSE /\ UNCHANGED bad
             [] e.op = "send" -> ch' = Append(ch, e.b) /\ UNCHANGED <<bad, pb, closed>>
             [] e.op = "close" -> closed' = TRUE /\ UNCHANGED <<bad, pb, ch>>
             [] e.op = "push" -> pb' = Append(pb, e.b) /\ UNCHANGED <<bad, ch, closed>>
             [] e.op = "get" ->
                  IF pb # <<>> THEN Flag(e.err = "" /\ e.b = Head(pb)) /\ pb' = Tail(pb) /\ UNCHANGED <<ch, closed>>
                  ELSE IF ch # <<>> THEN Flag(e.err = "" /\ e.b = Head(ch)) /\ ch' = Tail(ch) /\ UNCHANGED <<pb, closed>>
                  ELSE Flag(closed /\ e.err # "") /\ UNCHANGED <<pb, ch, closed>>
Rec == Note(l, bad)
=============================================================================
