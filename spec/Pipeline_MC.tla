---------------------------- MODULE Pipeline_MC ----------------------------
(***************************************************************************)
(* Instantiation of Pipeline for one input: the constants come from        *)
(* Pipeline_Params.tla, which the check generates per run (the emission    *)
(* schedule is computed by FramerCore from the real bytes).                *)
(***************************************************************************)
EXTENDS Pipeline_Params, Json, Integers, Sequences, TLC
VARIABLES pcR, sent, closedB, pcF, taken, emitted, closedM, pcM, cur, idx, buf, got, pcC, hist
P == INSTANCE Pipeline WITH NBytes <- ParamNBytes, Emit <- ParamEmit, CloseAt <- ParamCloseAt, Caps <- ParamCaps, RecHist <- ParamRecHist
Init == P!Init
Next == P!Next
Spec == P!Spec
view == P!view
C09Safe == P!C09Safe
C09Done == P!C09Done
NoSendOnClosed == P!NoSendOnClosed
Terminates == P!Terminates
AllReceived == P!AllReceived
Dump == P!Quiescent => PrintT(<<"BEH", ToJson([hist |-> hist])>>)
=============================================================================
