INIT Init
NEXT Next
VIEW view
INVARIANT C09Safe
INVARIANT C09Done
INVARIANT NoSendOnClosed
CHECK_DEADLOCK FALSE
