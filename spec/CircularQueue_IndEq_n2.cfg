SPECIFICATION SpecC
CONSTANT N = 2
CONSTANT Procs = {"a","b","c"}
CONSTANT MaxOps = 5
CONSTANT UseLock = TRUE
INVARIANT AbstractionExact
INVARIANT MappedInv
INVARIANT SameStatements
PROPERTY SameSteps
CHECK_DEADLOCK FALSE
