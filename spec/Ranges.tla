------------------------------- MODULE Ranges -------------------------------
(***************************************************************************)
(* MSM observables: how the rough values of a satellite cell and the fine  *)
(* values of a signal cell combine (RTCM 10403 / RTKLIB decode_msm4/7).    *)
(*   pseudorange [ms]  = whole + frac/1024 + fine * 2^-24 (MSM4) 2^-29 (7) *)
(*   phase range [ms]  = whole + frac/1024 + phase * 2^-29 (MSM4) 2^-31 (7)*)
(*   range rate [m/s]  = rough + fine/10000            (MSM7 only)         *)
(* The exact part is done here on scaled integers, kept inside 32 bits by  *)
(* splitting at 2^19 (range, unit 2^-29 ms) and 2^21 (phase, unit 2^-31):  *)
(* an aggregate is the pair <<hi, lo>> = <<value \div radix, value % radix>>*)
(* The real-number step (times c/1000, divided by the wavelength) is done  *)
(* by the harness in exact rational arithmetic with the constants exported *)
(* from this module (Export) - the harness has none of its own.            *)
(***************************************************************************)
EXTENDS Integers, Sequences

InvWhole == 255
InvFine(fam) == IF fam = "msm7" THEN -524288 ELSE -16384
InvPhase(fam) == IF fam = "msm7" THEN -8388608 ELSE -2097152
InvRoughRate == -8192
InvFineRate == -16384

\* MSM4 fine values normalised to the MSM7 resolution
NormFine(fam, f) == IF fam = "msm7" THEN f ELSE 32 * f
NormPhase(fam, p) == IF fam = "msm7" THEN p ELSE 4 * p

RangeRadix == 524288      \* 2^19
PhaseRadix == 2097152     \* 2^21

\* invalid rough range => 0; invalid fine value => rough value alone
AggRange(fam, whole, frac, fine) ==
    IF whole = InvWhole THEN << 0, 0 >>
    ELSE LET d == IF fine = InvFine(fam) THEN 0 ELSE NormFine(fam, fine)
         IN << whole * 1024 + frac + (d \div RangeRadix), d % RangeRadix >>

AggPhase(fam, whole, frac, phase) ==
    IF whole = InvWhole THEN << 0, 0 >>
    ELSE LET d == IF phase = InvPhase(fam) THEN 0 ELSE NormPhase(fam, phase)
         IN << whole * 1024 + frac + (d \div PhaseRadix), d % PhaseRadix >>

AggRate(rough, fine) ==
    IF rough = InvRoughRate THEN 0
    ELSE rough * 10000 + (IF fine = InvFineRate THEN 0 ELSE fine)

\* the property's scope: true value non-negative
NonNegative(agg) == agg[1] >= 0

\* how many times the display must say "invalid" for one signal cell
InvalidWords(fam, whole, roughRate) ==
    (IF whole = InvWhole THEN 2 ELSE 0) + (IF fam = "msm7" /\ roughRate = InvRoughRate THEN 2 ELSE 0)

\* ---- carrier frequencies in kHz per constellation and MSM signal id (0 = none documented) ----
\* signal id -> band from RTKLIB's msm_sig_* tables (c/rtklib/rtcm3.c), band -> frequency as
\* documented in rtcm/utils (L1/E1 1575.42, L2 1227.60, L5/E5a 1176.45, E6 1278.75, E5b 1207.14,
\* E5a+b 1191.795, G1 1602.0, G2 1246.0, B1 1561.098, B3 1268.52, B2 1176.45 MHz)
FreqKHz(con, sig) ==
    CASE con = "gps" ->
           (CASE sig \in {2, 3, 4} -> 1575420 [] sig \in {8, 9, 10, 15, 16, 17} -> 1227600
              [] sig \in {22, 23, 24} -> 1176450 [] sig \in {30, 31, 32} -> 1575420 [] OTHER -> 0)
      [] con = "galileo" ->
           (CASE sig \in 2..6 -> 1575420 [] sig \in 8..12 -> 1278750 [] sig \in {14, 15, 16} -> 1207140
              [] sig \in {18, 19, 20} -> 1191795 [] sig \in {22, 23, 24} -> 1176450 [] OTHER -> 0)
      [] con = "glonass" ->
           (CASE sig \in {2, 3} -> 1602000 [] sig \in {8, 9} -> 1246000 [] OTHER -> 0)
      [] con = "beidou" ->
           (CASE sig \in {2, 3, 4} -> 1561098 [] sig \in {8, 9, 10} -> 1268520 [] sig \in {14, 15, 16} -> 1176450 [] OTHER -> 0)
      [] OTHER -> 0

Cons4 == <<"gps", "galileo", "glonass", "beidou">>

Export == [ c_m_per_s |-> 299792458,
            range_unit_log2 |-> 29, phase_unit_log2 |-> 31, range_radix_log2 |-> 19, phase_radix_log2 |-> 21,
            rate_scale |-> 10000,
            freq_khz |-> [i \in 1..4 |-> [s \in 1..32 |-> FreqKHz(Cons4[i], s)]] ]
=============================================================================
