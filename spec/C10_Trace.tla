----------------------------- MODULE C10_Trace -----------------------------
(***************************************************************************)
(* C10 (L0): rtcmfilter emits exactly the valid RTCM frames of its input,  *)
(* in order.  Event: one complete run of rtcmfilter (in-process entry      *)
(* point, or the built binary over pipes):                                 *)
(*   [in, out, ret, display, record, has_rec, rec, has_disp, entries]      *)
(* Expected: the messages FramerCore (real constants, real CRC-24Q)        *)
(* delimits in `in`; stdout and the day's record file = the raw bytes of   *)
(* the typed ones concatenated in order; the readable log has one entry    *)
(* per delivered message (entries: the N of each "Frame length N bytes:"   *)
(* marker, which String() prints once per message).                        *)
(***************************************************************************)
EXTENDS TraceBase, Frame

RealLeaderOK(f) == ReservedOK(f[2]) /\ PayloadLen(f[2], f[3]) # 0
RealFrameLen(f) == PayloadLen(f[2], f[3]) + LeaderLen + CRCLen
RealCRCOK(f) == SubSeq(f, Len(f) - 2, Len(f)) = CrcBytes(CRC24Q(SubSeq(f, 1, Len(f) - 3)))
R == INSTANCE FramerCore WITH SOFc <- SOF, LeaderLen <- 3, ProbeLen <- 5,
        LeaderOK <- RealLeaderOK, FrameLen <- RealFrameLen, CRCOK <- RealCRCOK, TypeOf <- Type12

\* all messages of a stream, by running the framer transitions to completion
Messages(in) ==
  FoldLeft(LAMBDA a, k : IF a[1].done THEN a ELSE R!StepIdx(a[1], in, a[2]),
           << R!St0, 0 >>, [k \in 1..(2 * Len(in) + 6) |-> k])[1].out

VARIABLES l, bad

Ok(e) ==
  \E msgs \in {Messages(e.in)} :
  \E want \in {R!Concat(SelectSeq(msgs, LAMBDA m : m.type >= 0))} :
       /\ e.ret = ""
       /\ e.out = want
       /\ (e.record => e.has_rec /\ e.rec = want)          \* (a day's file is created at the first write:
       /\ (e.display => (msgs # <<>> => e.has_disp)        \*  no message, possibly no file)
                        /\ e.entries = FoldLeft(LAMBDA acc, m : Append(acc, Len(m.raw)), <<>>, msgs))

Init == l = 1 /\ bad = <<>>
Next == /\ l <= Len(Trace)
        /\ l' = l + 1
        /\ bad' = IF Ok(Trace[l]) \/ Len(bad) >= MaxBad THEN bad ELSE Append(bad, l)
Rec == Note(l, bad)
=============================================================================
