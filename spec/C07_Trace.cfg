INIT Init
NEXT Next
CONSTRAINT Rec
POSTCONDITION VerdictC07
CHECK_DEADLOCK FALSE
