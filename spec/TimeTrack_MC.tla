---------------------------- MODULE TimeTrack_MC ----------------------------
(***************************************************************************)
(* Exhaustive check of the time tracking design against C06 / C17 with toy *)
(* constants: a day is 4 ticks, a week 28 ticks; week starts are 1 (BeiDou)*)
(* 2 (GPS, Galileo) and 3 (GLONASS) ticks before Sunday 00:00 UTC.         *)
(* The environment owns the true observation times u[c]: per constellation *)
(* non-decreasing, consecutive ones less than six days apart, the first    *)
(* one in the same constellation week as the start time T and (C06 only,   *)
(* FirstNotBeforeT = TRUE) not earlier than T.  Illegal timestamps may be  *)
(* inserted anywhere.  All T in the first week, all interleavings of the   *)
(* constellations in CS, horizon Horizon ticks.                            *)
(***************************************************************************)
EXTENDS Integers, TLC

CONSTANTS CS, Horizon, FirstNotBeforeT, SwLose, SwGal, SwInit

ToyOff == [c \in {"gps", "galileo", "glonass", "beidou"} |->
              CASE c = "gps" -> -2 [] c = "galileo" -> -2 [] c = "glonass" -> -3 [] c = "beidou" -> -1]

TT == INSTANCE TimeTrack WITH W <- 28, D <- 4, Off <- ToyOff, GloShift <- 8,
         LoseUpdates <- SwLose, GalileoUsesGPSWeek <- SwGal, InitPrevFromStart <- SwInit

VARIABLES T,       \* start time given to the handler
          h,       \* handler state
          u,       \* u[c]: true time of the last observation of c, or -100 before the first
          lastOut  \* result of the last conversion, with the expected values

vars == <<T, h, u, lastOut>>
None == -100

Init == /\ T \in 28..55                      \* any instant of UTC week 1
        /\ h = TT!New(T)
        /\ u = [c \in CS |-> None]
        /\ lastOut = [kind |-> "none"]

\* a legal observation of constellation c at true time t
Obs(c, t) ==
    /\ IF u[c] = None
       THEN /\ TT!WeekStart(c, t) = TT!WeekStart(c, T)         \* same constellation week as T
            /\ (FirstNotBeforeT => t >= T)
       ELSE t >= u[c] /\ t - u[c] < 6 * 4                      \* non-decreasing, gap < 6 days
    /\ t <= Horizon
    /\ LET r == TT!Convert(h, c, TT!TsOf(c, t)) IN
         /\ h' = r.h
         /\ lastOut' = [kind |-> "obs", c |-> c, err |-> r.err, time |-> r.time, sow |-> r.sow,
                        wantTime |-> t, wantSow |-> TT!WeekStart(c, t)]
    /\ u' = [u EXCEPT ![c] = t]
    /\ UNCHANGED T

\* an illegal timestamp arrives for constellation c
Bad(c) ==
    /\ lastOut.kind # "bad"                                    \* (at most one in a row: bounds the graph)
    /\ LET ts == IF c = "glonass" THEN 7 * 8 ELSE 28
           r == TT!Convert(h, c, ts) IN
         /\ h' = r.h
         /\ lastOut' = [kind |-> "bad", c |-> c, err |-> r.err]
    /\ UNCHANGED <<T, u>>

Next == \E c \in CS : Bad(c) \/ \E t \in 25..Horizon : Obs(c, t)

\* C06 / C17: every reported time and start-of-week is the true one; illegal timestamps are errors
Correct ==
    /\ lastOut.kind = "obs" => ~lastOut.err /\ lastOut.time = lastOut.wantTime /\ lastOut.sow = lastOut.wantSow
    /\ lastOut.kind = "bad" => lastOut.err

\* the handler state is a function of the truth (L1 inductive invariant of the intended design)
StateTracksTruth ==
    \A c \in CS : u[c] # None =>
        /\ h.ws[c] = TT!WeekStart(c, u[c])
        /\ h.prev[c] = (IF c = "glonass" THEN TT!InWeek(c, u[c]) \div 4 ELSE TT!InWeek(c, u[c]))

\* states differ only by lastOut's bookkeeping: keep it out of the fingerprint
View == <<T, h, u, lastOut.kind>>
=============================================================================
