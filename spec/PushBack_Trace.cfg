INIT Init
NEXT Next
CONSTRAINT Rec
POSTCONDITION Verdict
CHECK_DEADLOCK FALSE
