CONSTANT NMsg = 4
CONSTANT Cap = 0
CONSTANT WaitForWriters = TRUE
CONSTANT WriteFailsAt = 2
SPECIFICATION Spec
INVARIANT WrittenPrefix
PROPERTY Returns
CHECK_DEADLOCK FALSE
