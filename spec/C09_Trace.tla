----------------------------- MODULE C09_Trace -----------------------------
(***************************************************************************)
(* C09 (L0): every non-nil consumer receives exactly the message sequence  *)
(* that sequential framing of the same bytes produces, the call returns,   *)
(* helper goroutines finish, nothing panics (double close / send on closed *)
(* channel are Go panics).                                                 *)
(*   [ev |-> "case", ref, ncons]      ref: digests of the sequential run   *)
(*   [ev |-> "recv", i, d]            consumer i received a message        *)
(*   [ev |-> "end", returned, leaked, panic, drift]                        *)
(***************************************************************************)
EXTENDS TraceBase

VARIABLES l, bad, ref, cnt, ncons

Init == l = 1 /\ bad = <<>> /\ ref = <<>> /\ cnt = <<>> /\ ncons = 0

Next == /\ l <= Len(Trace)
        /\ l' = l + 1
        /\ LET e == Trace[l] IN
           CASE e.ev = "case" ->
                  /\ ref' = e.ref /\ ncons' = e.ncons /\ cnt' = [i \in 1..e.ncons |-> 0] /\ UNCHANGED bad
             [] e.ev = "recv" ->
                  LET k == cnt[e.i] + 1
                      ok == k <= Len(ref) /\ ref[k] = e.d IN
                  /\ cnt' = [cnt EXCEPT ![e.i] = k]
                  /\ bad' = IF ok \/ Len(bad) >= MaxBad THEN bad ELSE Append(bad, l)
                  /\ UNCHANGED <<ref, ncons>>
             [] e.ev = "end" ->
                  LET ok == /\ e.returned /\ e.leaked = 0 /\ e.panic = ""
                            /\ \A i \in 1..ncons : cnt[i] = Len(ref) IN
                  /\ bad' = IF ok \/ Len(bad) >= MaxBad THEN bad ELSE Append(bad, l)
                  /\ UNCHANGED <<ref, cnt, ncons>>
Rec == Note(l, bad)
=============================================================================
