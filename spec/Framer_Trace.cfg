INIT Init
NEXT Next
CONSTRAINT Rec
POSTCONDITION VerdictF
CHECK_DEADLOCK FALSE
