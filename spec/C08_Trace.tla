----------------------------- MODULE C08_Trace -----------------------------
(***************************************************************************)
(* C08: ranges, phase ranges and range rates equal the standard's formulas.*)
(* Event: one decoded signal cell of a real MSM4/MSM7 decode:              *)
(*   [fam, con, sig, whole, frac, fine, phase, rough_rate, fine_rate,      *)
(*    agg_range, agg_phase, agg_rate, n_invalid, float_ok, float_err]      *)
(* TLC decides the exact scaled-integer part and the invalid-marker case   *)
(* analysis; float_ok is the harness's exact-rational verdict on the four  *)
(* floating-point results using the constants of Ranges!Export.            *)
(***************************************************************************)
EXTENDS TraceBase, Ranges

ASSUME PrintT(<<"EXPORT", ToJson(Export)>>)

VARIABLES l, bad

Ok(e) ==
    LET ar == AggRange(e.fam, e.whole, e.frac, e.fine)
        ap == AggPhase(e.fam, e.whole, e.frac, e.phase)
    IN /\ e.panic = ""
       /\ (NonNegative(ar) => e.agg_range = ar)
       /\ (NonNegative(ap) => e.agg_phase = ap)
       /\ (e.fam = "msm7" => e.agg_rate = AggRate(e.rough_rate, e.fine_rate))
       /\ e.n_invalid = InvalidWords(e.fam, e.whole, e.rough_rate)
       /\ e.float_ok

Init == l = 1 /\ bad = <<>>
Next == /\ l <= Len(Trace)
        /\ l' = l + 1
        /\ bad' = IF Ok(Trace[l]) \/ Len(bad) >= MaxBad THEN bad ELSE Append(bad, l)
Rec == Note(l, bad)
=============================================================================
