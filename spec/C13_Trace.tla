----------------------------- MODULE C13_Trace -----------------------------
(***************************************************************************)
(* C13 (L0, real bytes): transient end-of-file / read time-outs lose and   *)
(* duplicate nothing; persistent silence, zero tolerance and other errors  *)
(* stop the handler, with everything received so far delivered and the     *)
(* message channel closed.  Event: one run of the real file_handler.Handle *)
(* over a real bufio.Reader on top of a scripted io.Reader:                *)
(*   [script, tz, msgs, closed, returned, ret, stalled]                    *)
(* script: sequence of [k, b] (k in "D","E","T","X"; b the data byte).     *)
(* The expected messages are FramerCore's (real CRC-24Q) on exactly the    *)
(* data bytes that precede the stop point of ReaderFaults.                 *)
(***************************************************************************)
EXTENDS TraceBase, Frame

FR == INSTANCE FileReader WITH Wait <- 1, Timeout <- 30

RealLeaderOK(f) == ReservedOK(f[2]) /\ PayloadLen(f[2], f[3]) # 0
RealFrameLen(f) == PayloadLen(f[2], f[3]) + LeaderLen + CRCLen
RealCRCOK(f) == SubSeq(f, Len(f) - 2, Len(f)) = CrcBytes(CRC24Q(SubSeq(f, 1, Len(f) - 3)))
R == INSTANCE FramerCore WITH SOFc <- SOF, LeaderLen <- 3, ProbeLen <- 5,
        LeaderOK <- RealLeaderOK, FrameLen <- RealFrameLen, CRCOK <- RealCRCOK, TypeOf <- Type12
Messages(in) ==
  FoldLeft(LAMBDA a, k : IF a[1].done THEN a ELSE R!StepIdx(a[1], in, a[2]),
           << R!St0, 0 >>, [k \in 1..(2 * Len(in) + 6) |-> k])[1].out

VARIABLES l, bad

Ok(e) ==
  \E kinds \in {FoldLeft(LAMBDA acc, x : Append(acc, x.k), <<>>, e.script)} :
  \E stop \in {FR!StopP(kinds, e.tz)} :
    LET upto == IF stop - 1 <= Len(kinds) THEN stop - 1 ELSE Len(kinds)
        data == FoldLeft(LAMBDA acc, x : IF x.k = "D" THEN Append(acc, x.b) ELSE acc, <<>>, SubSeq(e.script, 1, upto))
    IN \/ e.stalled                                    \* the environment stalled: the run proves nothing
       \/ /\ e.returned /\ e.closed
          /\ e.ret = FR!RetKindP(kinds, e.tz)
          /\ e.msgs = Messages(data)

Init == l = 1 /\ bad = <<>>
Next == /\ l <= Len(Trace)
        /\ l' = l + 1
        /\ bad' = IF Ok(Trace[l]) \/ Len(bad) >= MaxBad THEN bad ELSE Append(bad, l)
Rec == Note(l, bad)
=============================================================================
