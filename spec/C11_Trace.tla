----------------------------- MODULE C11_Trace -----------------------------
(***************************************************************************)
(* C11 (L0): when an application's message handling returns, all output    *)
(* has been written.  Event: one gated run of displayrtcm3.HandleMessages  *)
(* or rtcmfilter.HandleMessages in which Write call number `hold` of the   *)
(* output writer was blocked:                                              *)
(*   [app, hold, ref_writes, returned_while_write_blocked, returned,       *)
(*    complete_at_return, final_equal_ref]                                 *)
(* The schedule is the counterexample of Apps.tla with WaitForWriters =    *)
(* FALSE (main.closeChan, main.return before writer.writeEnd), forced by   *)
(* the blocking writer.                                                    *)
(***************************************************************************)
EXTENDS TraceBase

VARIABLES l, bad

Ok(e) == /\ ~e.returned_while_write_blocked    \* a Write was still in progress: must not have returned
         /\ e.returned                         \* but returns once the writer is released
         /\ e.complete_at_return               \* and then everything is in the output
         /\ e.final_equal_ref
         /\ e.ref_matches_expected            \* and "everything" is what the messages of the input amount to (computed
                                              \* from the real stream handler run sequentially, not from the application)

Init == l = 1 /\ bad = <<>>
Next == /\ l <= Len(Trace)
        /\ l' = l + 1
        /\ bad' = IF Ok(Trace[l]) \/ Len(bad) >= MaxBad THEN bad ELSE Append(bad, l)
Rec == Note(l, bad)
=============================================================================
