------------------------------ MODULE PushBack ------------------------------
(***************************************************************************)
(* L1: rtcm/pushback.ByteChannel - a byte channel with a push-back buffer. *)
(* PushBack(b) appends b to the buffer; GetNextByte takes the OLDEST       *)
(* pushed-back byte if there is one, otherwise the next byte of the        *)
(* channel, otherwise (channel closed and drained) the error "done".       *)
(* The framer relies on: what it reads is, in order, everything it pushed  *)
(* back (first in, first out) in front of what the channel still holds.    *)
(*   Bytes    the byte values of the model                                 *)
(*   MaxLen   bound on the channel content and on the number of pushes     *)
(***************************************************************************)
EXTENDS Integers, Sequences

CONSTANTS Bytes, MaxLen

VARIABLES pb,      \* push-back buffer, oldest first
          ch,      \* what the channel still holds
          closed,  \* the producer has closed the channel
          out,     \* everything GetNextByte has returned, in order
          virt,    \* ghost: the sequence a reader is still owed = pb \o ch at all times
          npush, done

vars == <<pb, ch, closed, out, virt, npush, done>>

Init == /\ pb = <<>> /\ ch = <<>> /\ closed = FALSE /\ out = <<>> /\ virt = <<>> /\ npush = 0 /\ done = FALSE

Send(b) == /\ ~closed /\ Len(ch) + Len(out) < MaxLen /\ ch' = Append(ch, b) /\ virt' = Append(virt, b)
           /\ UNCHANGED <<pb, closed, out, npush, done>>
Close == /\ ~closed /\ closed' = TRUE /\ UNCHANGED <<pb, ch, out, virt, npush, done>>
\* the reader pushes a byte back: it is served after the bytes pushed back before it and before anything from the channel
Push(b) == /\ npush < MaxLen /\ pb' = Append(pb, b) /\ npush' = npush + 1
           /\ virt' = SubSeq(virt, 1, Len(pb)) \o <<b>> \o SubSeq(virt, Len(pb) + 1, Len(virt))
           /\ UNCHANGED <<ch, closed, out, done>>
Get == \/ /\ pb # <<>> /\ out' = Append(out, Head(pb)) /\ pb' = Tail(pb) /\ virt' = Tail(virt)
          /\ UNCHANGED <<ch, closed, npush, done>>
       \/ /\ pb = <<>> /\ ch # <<>> /\ out' = Append(out, Head(ch)) /\ ch' = Tail(ch) /\ virt' = Tail(virt)
          /\ UNCHANGED <<pb, closed, npush, done>>
       \/ /\ pb = <<>> /\ ch = <<>> /\ closed /\ done' = TRUE
          /\ UNCHANGED <<pb, ch, closed, out, virt, npush>>

Next == (\E b \in Bytes : Send(b) \/ Push(b)) \/ Close \/ Get
Spec == Init /\ [][Next]_vars

Owed == virt = pb \o ch                         \* the buffer is served first, oldest first, then the channel
DoneOnlyAtEnd == [][(done' /\ ~done) => (closed /\ pb = <<>> /\ ch = <<>>)]_vars   \* "done" is reported only when nothing is owed
NothingLost == [][Len(out') >= Len(out) /\ SubSeq(out', 1, Len(out)) = out]_vars
=============================================================================
