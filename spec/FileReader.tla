----------------------------- MODULE FileReader -----------------------------
(***************************************************************************)
(* L1: the read loop of file_handler.Handle: one byte per Read through a   *)
(* bufio.Reader, end-of-file / "i/o timeout" tolerated for a while,        *)
(* everything else fatal.  The source is a script of read results:         *)
(*   "D" a data byte, "E" end of file, "T" i/o timeout, "X" another error. *)
(* After the script the source reports "E" for ever.                       *)
(* Time is an abstract clock advanced by the loop's own sleeps and by one   *)
(* tick per Read call (a sleep of d lasts at least d, so elapsed > d).      *)
(*                                                                         *)
(* L0 (ReaderFaults, C13): an interruption (maximal run of E/T) of length  *)
(* 1 or 2 is transient when the tolerance is non-zero and the wait is much *)
(* shorter than the tolerance; the third consecutive E/T, any E/T with     *)
(* zero tolerance, and X stop the handler with that error.  Everything     *)
(* supplied before the stop is forwarded exactly once, in order; nothing   *)
(* after it.                                                               *)
(***************************************************************************)
EXTENDS Integers, Sequences

CONSTANTS Wait, Timeout        \* WaitTimeOnEOF, TimeoutOnEOF in clock ticks

Kinds == {"D", "E", "T", "X"}
Soft(k) == k \in {"E", "T"}

\* ---------------------------------------------------------------- L0
\* index (1-based) of the script entry at which the handler stops; Len+1.. = in the endless EOF tail
\* tz: the tolerance (TimeoutOnEOF) is zero
RECURSIVE StopAt(_, _, _, _)
StopAt(script, i, run, tz) ==     \* run = length of the current E/T run before entry i
  LET k == IF i <= Len(script) THEN script[i] ELSE "E" IN
  IF k = "X" THEN i
  ELSE IF Soft(k) THEN (IF tz \/ run + 1 >= 3 THEN i ELSE StopAt(script, i + 1, run + 1, tz))
  ELSE StopAt(script, i + 1, 0, tz)

StopP(script, tz) == StopAt(script, 1, 0, tz)
Stop(script) == StopP(script, Timeout = 0)
\* number of data entries before the stop = bytes that must be forwarded
DataBefore(script, stop) == Len(SelectSeq(SubSeq(script, 1, IF stop - 1 <= Len(script) THEN stop - 1 ELSE Len(script)), LAMBDA k : k = "D"))
RetKindP(script, tz) == LET s == StopP(script, tz) IN IF s <= Len(script) THEN script[s] ELSE "E"
RetKind(script) == RetKindP(script, Timeout = 0)

\* ---------------------------------------------------------------- L1
\* state: pos (next script entry), clock, firstEOF (-1 = nil), fwd (bytes forwarded), ret ("" = running)
Entry(script, pos) == IF pos <= Len(script) THEN script[pos] ELSE "E"

Step(script, st0) ==
  LET st == [st0 EXCEPT !.clock = @ + 1]       \* the Read call itself takes a little time
      k == Entry(script, st.pos) IN
  IF k = "D" THEN [st EXCEPT !.pos = @ + 1, !.firstEOF = -1, !.fwd = @ + 1]               \* ReadData
  ELSE IF k = "X" THEN [st EXCEPT !.pos = @ + 1, !.ret = "X"]                                \* ReadOtherError
  ELSE IF Timeout = 0 THEN [st EXCEPT !.pos = @ + 1, !.ret = k]                              \* ReadEOFZeroTolerance
  ELSE IF st.firstEOF = -1
       THEN [st EXCEPT !.pos = @ + 1, !.firstEOF = st.clock, !.clock = @ + Wait]             \* ReadEOFFirst
       ELSE IF st.clock - st.firstEOF > Timeout
            THEN [st EXCEPT !.pos = @ + 1, !.ret = k]                                        \* ReadEOFExpired
            ELSE [st EXCEPT !.pos = @ + 1, !.clock = @ + Timeout]                            \* ReadEOFRetry

St0 == [pos |-> 1, clock |-> 0, firstEOF |-> -1, fwd |-> 0, ret |-> ""]
=============================================================================
