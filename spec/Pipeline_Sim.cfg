INIT Init
NEXT Next
INVARIANT Dump
CHECK_DEADLOCK FALSE
