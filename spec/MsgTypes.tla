------------------------------ MODULE MsgTypes ------------------------------
(***************************************************************************)
(* The single classification table of RTCM3 message types used by every    *)
(* other module.  Types are 12-bit (0..4095); -1 is the non-RTCM sentinel  *)
(* and -2 the test-only stop sentinel.                                     *)
(***************************************************************************)
EXTENDS Integers

AllTypes == (-2)..4095

MSM4Types == {1074, 1084, 1094, 1104, 1114, 1124, 1134}
MSM7Types == {1077, 1087, 1097, 1107, 1117, 1127, 1137}
MSMTypes == MSM4Types \cup MSM7Types

\* normalised constellation token ("" = none)
ConstellationOf(t) ==
    CASE t \in {1074, 1077} -> "gps"
      [] t \in {1084, 1087} -> "glonass"
      [] t \in {1094, 1097} -> "galileo"
      [] t \in {1104, 1107} -> "sbas"
      [] t \in {1114, 1117} -> "qzss"
      [] t \in {1124, 1127} -> "beidou"
      [] t \in {1134, 1137} -> "navic"
      [] OTHER -> ""

\* constellations whose timestamps the handler converts to UTC
TimedConstellations == {"gps", "glonass", "galileo", "beidou"}

HasTimestamp(t) == t \in MSMTypes

\* decoder family that accepts / is attempted for a type ("none" otherwise)
Family(t) ==
    CASE t \in MSM4Types -> "msm4"
      [] t \in MSM7Types -> "msm7"
      [] t = 1005 -> "1005"
      [] t = 1006 -> "1006"
      [] OTHER -> "none"

Decodable(t) == Family(t) # "none"

\* cross-consistency of the table itself (checked as an ASSUME by C20)
TableConsistent ==
    /\ MSM4Types \cap MSM7Types = {}
    /\ \A t \in AllTypes : (t \in MSM4Types) <=> (t \in 1074..1137 /\ t % 10 = 4)
    /\ \A t \in AllTypes : (t \in MSM7Types) <=> (t \in 1074..1137 /\ t % 10 = 7)
    /\ \A t \in AllTypes : (ConstellationOf(t) # "") <=> t \in MSMTypes
    /\ \A t \in AllTypes : HasTimestamp(t) <=> (Family(t) \in {"msm4", "msm7"})
=============================================================================
