CONSTANT CS = {"gps","galileo"}
CONSTANT Horizon = 96
CONSTANT FirstNotBeforeT = TRUE
CONSTANT SwLose = FALSE
CONSTANT SwGal = TRUE
CONSTANT SwInit = FALSE
CONSTANT K = 99
INIT SInit
NEXT SNext
INVARIANT Correct
CHECK_DEADLOCK FALSE
