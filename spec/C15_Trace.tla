----------------------------- MODULE C15_Trace -----------------------------
(***************************************************************************)
(* C15: decoding and display are deterministic and free of hidden state.   *)
(* L0 (Stateless): the readable text (minus the MSM time lines) and the    *)
(* decoded fields of a frame are a FUNCTION of (frame, log level) alone.   *)
(* The monitor learns the function at first sight - seen[key] - and        *)
(* rejects any later event for the same key with a different digest,       *)
(* whatever handler, goroutine, predecessor frames, repetition or consumer *)
(* produced it.  Every event also carries whether the raw bytes were the   *)
(* same before and after display.                                          *)
(*   [key, text, dec, raw_same, scenario]                                  *)
(***************************************************************************)
EXTENDS TraceBase, FiniteSets

VARIABLES l, bad, seen

Init == l = 1 /\ bad = <<>> /\ seen = [k \in {} |-> <<>>]

Next == /\ l <= Len(Trace)
        /\ l' = l + 1
        /\ LET e == Trace[l]
               known == e.key \in DOMAIN seen
               ok == e.raw_same /\ e.panic = "" /\ (known => seen[e.key] = <<e.text, e.dec>>)
           IN /\ bad' = IF ok \/ Len(bad) >= MaxBad THEN bad ELSE Append(bad, l)
              /\ seen' = IF known THEN seen ELSE [k \in DOMAIN seen \cup {e.key} |-> IF k = e.key THEN <<e.text, e.dec>> ELSE seen[k]]
Rec == Note(l, bad) /\ TLCSet(3, Cardinality(DOMAIN seen))
VerdictC15 == PrintT(<<"KEYS", TLCGet(3)>>) /\ Verdict
=============================================================================
