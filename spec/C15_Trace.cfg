INIT Init
NEXT Next
CONSTRAINT Rec
POSTCONDITION VerdictC15
CHECK_DEADLOCK FALSE
