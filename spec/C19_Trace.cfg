INIT Init
NEXT Next
CONSTRAINT Rec
POSTCONDITION VerdictC19
CHECK_DEADLOCK FALSE
