---------------------------- MODULE TimeTrack_Sim ----------------------------
(***************************************************************************)
(* Direction B for C06 / C17: TimeTrack_MC plus a history variable, used   *)
(* (i) with `tlc -simulate` to emit random behaviours of the environment   *)
(* (start time, interleaved observation times, illegal timestamps) and     *)
(* (ii) with the as-found switches to obtain the shortest failing history  *)
(* of each deviation.  The Go driver concretises the toy ticks to real     *)
(* instants (week boundaries mapped onto the real ones) and replays the    *)
(* history on the real handler.                                            *)
(***************************************************************************)
EXTENDS TimeTrack_MC, Sequences, Json

CONSTANT K          \* behaviours are dumped when the history reaches this length

VARIABLE hist

Idx(c) == CASE c = "gps" -> 1 [] c = "galileo" -> 2 [] c = "glonass" -> 3 [] c = "beidou" -> 4

SInit == Init /\ hist = <<>>
SNext == \E c \in CS :
            \/ Bad(c) /\ hist' = Append(hist, <<Idx(c), -1>>)
            \/ \E t \in 25..Horizon : Obs(c, t) /\ hist' = Append(hist, <<Idx(c), t>>)

Dump == Len(hist) = K => PrintT(<<"BEH", ToJson([T |-> T, hist |-> hist])>>)
=============================================================================
