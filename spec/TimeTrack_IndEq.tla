--------------------------- MODULE TimeTrack_IndEq ---------------------------
(***************************************************************************)
(* Binds the Apalache transcription (TimeTrack_Ind!Obs, one constellation, *)
(* integer state) to the L1 model that real-code traces are compared with  *)
(* (TimeTrack!New / TimeTrack!Convert): on a bounded horizon every step of *)
(* TimeTrack_Ind is exactly the step Convert makes from the same state.    *)
(* Checked by TLC; the unbounded-time induction itself is Apalache's.      *)
(***************************************************************************)
EXTENDS TimeTrack_Ind

CONSTANTS H, GloShiftC

C == IF Glonass THEN "glonass" ELSE "gps"
TT == INSTANCE TimeTrack WITH Off <- [c \in {"gps", "galileo", "glonass", "beidou"} |-> Off], GloShift <- GloShiftC,
         LoseUpdates <- FALSE, GalileoUsesGPSWeek <- FALSE, InitPrevFromStart <- FALSE

\* cfg files cannot hold negative numbers
OffM3 == -3
OffM1 == -1

vars == <<u, ws, prev, shown, sow, started>>

\* the state right after New(T), T anywhere on the horizon
InitB == /\ \E T \in 0..H : ws = TT!New(T).ws[C] /\ prev = TT!New(T).prev[C]
         /\ u = 0 /\ shown = 0 /\ sow = 0 /\ started = FALSE
NextB == \E t \in 0..H : Obs(t)
SpecB == InitB /\ [][NextB]_vars

Handler == [ws |-> [c \in TT!Cons |-> ws], prev |-> [c \in TT!Cons |-> prev]]
SameStep == [][LET r == TT!Convert(Handler, C, TT!TsOf(C, u'))
               IN /\ ~r.err /\ r.time = shown' /\ r.sow = sow'
                  /\ r.h.ws[C] = ws' /\ r.h.prev[C] = prev']_vars
=============================================================================
