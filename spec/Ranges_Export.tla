--------------------------- MODULE Ranges_Export ---------------------------
EXTENDS Ranges, TLC, Json
ASSUME PrintT(<<"EXPORT", ToJson(Export)>>)
VARIABLE x
Init == x = 0
Next == UNCHANGED x
=============================================================================
