----------------------------- MODULE FramerCore -----------------------------
(***************************************************************************)
(* L1: the stream framer of rtcm/handler/handler.go, one transition per    *)
(* call site of GetNextByte in FetchNextMessageFrame / eatUntilStartOf-    *)
(* Frame, plus the one-byte push-back of rtcm/pushback.                    *)
(*                                                                         *)
(* The module is parameterised by the frame format so that the same        *)
(* transitions run with toy constants (exhaustive TLC runs, Framer_MC) and *)
(* with the real RTCM3 constants (trace validation, Framer_Trace):         *)
(*   SOFc        start-of-frame byte                                       *)
(*   LeaderLen   bytes needed to judge the leader (real: 3)                *)
(*   ProbeLen    bytes read before the leader is judged (real: 3 + 2)      *)
(*   LeaderOK(f) leader acceptable (real: reserved bits 0, length # 0);    *)
(*               looks only at the first LeaderLen bytes of f              *)
(*   FrameLen(f) total frame length announced by the leader                *)
(*   CRCOK(f)    checksum of the complete candidate f matches              *)
(*   TypeOf(f)   message type of a complete frame                          *)
(*                                                                         *)
(* Framer state st:                                                        *)
(*   phase  "eat" | "leader" | "body"   where FetchNextMessageFrame is     *)
(*   frame  bytes collected for the current message                        *)
(*   want   body bytes still to read (phase "body")                        *)
(*   pb     push-back buffer (pushback.ByteChannel.pushBackBuffer)         *)
(*   out    messages sent on ch_out so far: [type, raw], type -1 = non-RTCM*)
(*   done   ch_out closed                                                  *)
(***************************************************************************)
EXTENDS Integers, Sequences, SequencesExt, FiniteSetsExt

CONSTANTS SOFc, LeaderLen, ProbeLen, LeaderOK(_), FrameLen(_), CRCOK(_), TypeOf(_)

NonRTCM == -1

St0 == [phase |-> "eat", frame |-> <<>>, want |-> 0, pb |-> <<>>, out |-> <<>>, done |-> FALSE]

Msg(t, raw) == [type |-> t, raw |-> raw]

Reset(st)     == [st EXCEPT !.phase = "eat", !.frame = <<>>, !.want = 0]
Emit(st, m)   == [Reset(st) EXCEPT !.out = Append(st.out, m)]

\* handler.GetMessage on a complete candidate (CheckCRC, then NewMessage / NewNonRTCM)
Finish(st, f) == IF CRCOK(f) THEN Emit(st, Msg(TypeOf(f), f)) ELSE Emit(st, Msg(NonRTCM, f))

\* GetNextByte returned byte b
OnByte(st, b) ==
  LET f == Append(st.frame, b) IN
  CASE st.phase = "eat" ->                                   \* eatUntilStartOfFrame, handler.go:337
         IF b = SOFc
         THEN IF Len(f) > 1
              THEN [Emit(st, Msg(NonRTCM, Front(f))) EXCEPT !.pb = Append(st.pb, SOFc)]  \* handler.go:262-268
              ELSE [st EXCEPT !.phase = "leader", !.frame = f]
         ELSE [st EXCEPT !.frame = f]
    [] st.phase = "leader" ->                                \* phase 2, handler.go:284-307
         IF Len(f) < ProbeLen THEN [st EXCEPT !.frame = f]
         ELSE IF LeaderOK(f)
              THEN LET w == FrameLen(f) - ProbeLen IN
                   IF w <= 0 THEN Finish(st, f)
                   ELSE [st EXCEPT !.phase = "body", !.frame = f, !.want = w]
              ELSE Emit(st, Msg(NonRTCM, f))                 \* stray start byte: the probe is given up
    [] st.phase = "body" ->                                  \* phase 3/4, handler.go:311-330
         IF st.want = 1 THEN Finish(st, f) ELSE [st EXCEPT !.frame = f, !.want = st.want - 1]

\* GetNextByte returned the "done" error (channel closed and drained)
OnEOF(st) == IF st.frame = <<>> THEN [st EXCEPT !.done = TRUE]     \* HandleMessages: close(ch_out)
             ELSE IF st.phase = "eat" /\ Len(st.frame) = 1
                  \* eatUntilStartOfFrame hands back one byte with the error; the caller takes a
                  \* one-byte buffer for a start byte (handler.go:260-276) and asks for the next byte,
                  \* which fails again: one more read of the closed channel before the buffer is returned
                  THEN [st EXCEPT !.phase = "leader"]
                  ELSE Emit(st, Msg(NonRTCM, st.frame))            \* every early return hands back the buffer

\* The three ways pushback.GetNextByte can return, as one function of the remaining input.
\* Returns <<st', rest'>>.
StepOn(st, rest) ==
  IF st.pb # <<>> THEN << OnByte([st EXCEPT !.pb = Tail(st.pb)], Head(st.pb)), rest >>
  ELSE IF rest # <<>> THEN << OnByte(st, Head(rest)), Tail(rest) >>
  ELSE << OnEOF(st), rest >>

\* The same with an index into the stream instead of the remaining input (Tail of a long sequence costs its
\* length): i bytes of s have been taken.  Returns <<st', i'>>.
StepIdx(st, s, i) ==
  IF st.pb # <<>> THEN << OnByte([st EXCEPT !.pb = Tail(st.pb)], Head(st.pb)), i >>
  ELSE IF i < Len(s) THEN << OnByte(st, s[i + 1]), i + 1 >>
  ELSE << OnEOF(st), i >>

Concat(msgs) == FoldLeft(LAMBDA acc, m : acc \o m.raw, <<>>, msgs)

(***************************************************************************)
(* Declarative segmentation (L0 for C03 / C12), written independently of   *)
(* the operational transitions above.                                      *)
(* NextSeg(s, pos, allowCorrupt): the segment that must be delivered next  *)
(* when pos bytes of s have been delivered; ok = FALSE when the stream is  *)
(* not well-structured at this point (the property then demands nothing).  *)
(***************************************************************************)
RunLen(s, pos) ==
  LET sofs == {k \in (pos + 1)..Len(s) : s[k] = SOFc}
  IN IF sofs = {} THEN Len(s) - pos ELSE Min(sofs) - pos - 1

\* kind: "junk" (maximal run without start byte), "tail" (truncated frame at the end of
\* the stream), "frame" (complete, checksum matches), "corrupt" (complete candidate whose
\* checksum fails), "stray" (start byte whose leader is not acceptable).
Classify(s, pos) ==
  LET rem == Len(s) - pos IN
  IF s[pos + 1] # SOFc
  THEN [kind |-> "junk", type |-> NonRTCM, raw |-> SubSeq(s, pos + 1, pos + RunLen(s, pos))]
  ELSE IF rem < LeaderLen
       THEN [kind |-> "tail", type |-> NonRTCM, raw |-> SubSeq(s, pos + 1, Len(s))]
       ELSE LET ldr == SubSeq(s, pos + 1, pos + LeaderLen) IN
            IF ~LeaderOK(ldr) THEN [kind |-> "stray", type |-> NonRTCM, raw |-> <<>>]
            ELSE IF rem < FrameLen(ldr)
                 THEN [kind |-> "tail", type |-> NonRTCM, raw |-> SubSeq(s, pos + 1, Len(s))]
                 ELSE LET cand == SubSeq(s, pos + 1, pos + FrameLen(ldr)) IN
                      IF CRCOK(cand) THEN [kind |-> "frame", type |-> TypeOf(cand), raw |-> cand]
                      ELSE [kind |-> "corrupt", type |-> NonRTCM, raw |-> cand]

SegOK(seg, allowCorrupt) == seg.kind # "stray" /\ (seg.kind = "corrupt" => allowCorrupt)

NextSeg(s, pos, allowCorrupt) ==
  LET c == Classify(s, pos) IN [ok |-> SegOK(c, allowCorrupt), type |-> c.type, raw |-> c.raw]

RECURSIVE ParseFrom(_, _, _)
ParseFrom(s, pos, allowCorrupt) ==
  IF pos = Len(s) THEN [ok |-> TRUE, msgs |-> <<>>]
  ELSE LET seg == NextSeg(s, pos, allowCorrupt) IN
       IF ~seg.ok THEN [ok |-> FALSE, msgs |-> <<>>]
       ELSE LET rest == ParseFrom(s, pos + Len(seg.raw), allowCorrupt) IN
            [ok |-> rest.ok, msgs |-> << Msg(seg.type, seg.raw) >> \o rest.msgs]

Parse(s, allowCorrupt) == ParseFrom(s, 0, allowCorrupt)

\* IsValid(raw): raw is exactly one valid frame (L0 for C01)
IsValid(raw) == /\ Len(raw) >= LeaderLen
                /\ raw[1] = SOFc
                /\ LeaderOK(raw)
                /\ Len(raw) = FrameLen(raw)
                /\ CRCOK(raw)
=============================================================================
